"""LIN — relational abstract interpretation over the clang CFG: integer values are linear expressions over
symbolic unknowns, a state carries a conjunction of linear inequalities, pointers are (region, linear offset).

What it decides: for every memory access whose pointer is rooted in a region of known (symbolic) size — the queue
storage, a caller buffer with a length contract, a local array, a fresh allocation — that the access stays inside
the region for *every* value of the unknowns the path condition admits; and that the data invariant of an object
(assumed on entry) holds again on every exit.  Entailment is decided inside the domain by Fourier-Motzkin
elimination over the rationals with integer tightening (sound: "infeasible over Q" implies "infeasible over Z").

Path sensitivity: states reaching a block over different branch outcomes are kept apart (trace partitioning, bounded);
at loop heads states are joined: changed locations get a head symbol and only constraints both sides entail survive
(plus pairwise sum/difference equalities that hold on both sides), so the iteration terminates.
Calls to functions defined in the program are analysed in the caller's context (bounded depth); unknown calls havoc
what they can reach.  Unsigned arithmetic that cannot be shown wrap-free yields an unconstrained value.
"""
from math import gcd
from .facts import strip, cval, show, callee_name, walk
from . import lpint as _lpint

UMAX = (1 << 64) - 1
import os
DEBUG = bool(os.environ.get('LIN_DEBUG'))


# ---------------------------------------------------------------------------------------------------------------
# linear expressions and constraint sets
# ---------------------------------------------------------------------------------------------------------------
class Lin:
    __slots__ = ("t", "c", "_k")

    def __init__(self, t=None, c=0):
        self.t = {k: v for k, v in (t or {}).items() if v != 0}
        self.c = c
        self._k = None

    @staticmethod
    def const(c):
        return Lin(None, c)

    @staticmethod
    def sym(s):
        return Lin({s: 1}, 0)

    def key(self):
        if self._k is None:
            self._k = (tuple(sorted(self.t.items())), self.c)
        return self._k

    def __eq__(self, o):
        return isinstance(o, Lin) and self.key() == o.key()

    def __hash__(self):
        return hash(self.key())

    def is_const(self):
        return not self.t

    def __add__(self, o):
        if not isinstance(o, Lin):
            o = Lin.const(o)
        t = dict(self.t)
        for k, v in o.t.items():
            t[k] = t.get(k, 0) + v
        return Lin(t, self.c + o.c)

    def __neg__(self):
        return Lin({k: -v for k, v in self.t.items()}, -self.c)

    def __sub__(self, o):
        if not isinstance(o, Lin):
            o = Lin.const(o)
        return self + (-o)

    def scale(self, n):
        return Lin({k: v * n for k, v in self.t.items()}, self.c * n)

    def syms(self):
        return set(self.t)

    def subst(self, m):
        """replace symbols by Lin values"""
        r = Lin.const(self.c)
        for k, v in self.t.items():
            r = r + (m[k].scale(v) if k in m else Lin({k: v}))
        return r

    def __repr__(self):
        parts = []
        for k, v in sorted(self.t.items()):
            if v == 1:
                parts.append("+" + k)
            elif v == -1:
                parts.append("-" + k)
            else:
                parts.append("%+d*%s" % (v, k))
        if self.c or not parts:
            parts.append("%+d" % self.c)
        s = "".join(parts)
        return s[1:] if s.startswith("+") else s


def _norm(t, c):
    """t.x + c >= 0 over the integers, divided by the gcd of the coefficients (constant floored)"""
    if not t:
        return t, c
    g = 0
    for v in t.values():
        g = gcd(g, abs(v))
    if g > 1:
        t = {k: v // g for k, v in t.items()}
        c = c // g
    return t, c


_FM_CACHE = {}
FM_STATS = {"calls": 0, "cached": 0, "gaveup": 0}


def infeasible(cons, limit=600):
    """True when the conjunction of  t.x + c >= 0  (integer unknowns) is shown empty; False = may be satisfiable"""
    FM_STATS["calls"] += 1
    rows = {}
    for t, c in cons:
        t, c = _norm(dict(t), c)
        if not t:
            if c < 0:
                return True
            continue
        k = tuple(sorted(t.items()))
        if k not in rows or rows[k] > c:
            rows[k] = c
    ck = frozenset(rows.items())
    if ck in _FM_CACHE:
        FM_STATS["cached"] += 1
        return _FM_CACHE[ck]
    rows = _presolve(rows)
    if rows is True:
        res = True
    elif not rows:
        res = False
    # rational infeasibility first (exact integer simplex); when the rationals admit a solution, elimination with
    # integer tightening may still exclude every integer one
    elif len(rows) > 6 and _lpint.lp_infeasible(rows):
        FM_STATS["lp"] = FM_STATS.get("lp", 0) + 1
        res = True
    else:
        res = _fm(rows, limit)
        if res is None:
            res = False
    _FM_CACHE[ck] = res
    return res


def _presolve(rows):
    """shrink a system without changing its (integer) satisfiability: rows holding a symbol that occurs with one sign only
    can always be met and go; a pair  e >= 0, -e >= 0  with a unit coefficient is solved for that symbol and substituted.
    Returns the reduced {row: c}, or True when a contradiction shows up."""
    rows = dict(rows)
    while True:
        changed = False
        # one-sided symbols
        sign = {}
        for k in rows:
            for s, v in k:
                sign[s] = sign.get(s, 0) | (1 if v > 0 else 2)
        one = {s for s, b in sign.items() if b != 3}
        if one:
            n = len(rows)
            rows = {k: c for k, c in rows.items() if not any(s in one for s, v in k)}
            if len(rows) != n:
                changed = True
        # equalities
        for k, c in rows.items():
            nk = tuple((s, -v) for s, v in k)
            if nk in rows and rows[nk] == -c:
                piv = None
                for s, v in k:
                    if v in (1, -1):
                        piv = (s, v)
                        break
                if piv is None:
                    continue
                ps, pv = piv
                # ps = -(rest + c)/pv  ->  coefficient form: ps = sum(-v/pv * s) - c/pv
                sub = {s: -v * pv for s, v in k if s != ps}      # pv is +-1: division is multiplication
                subc = -c * pv
                new = {}
                bad = False
                for k2, c2 in rows.items():
                    if k2 == k or k2 == nk:
                        continue
                    d = dict(k2)
                    if ps in d:
                        a = d.pop(ps)
                        for s, v in sub.items():
                            d[s] = d.get(s, 0) + a * v
                        c2 = c2 + a * subc
                        d = {s: v for s, v in d.items() if v}
                    d, c2 = _norm(d, c2)
                    if not d:
                        if c2 < 0:
                            bad = True
                            break
                        continue
                    kk = tuple(sorted(d.items()))
                    if kk not in new or new[kk] > c2:
                        new[kk] = c2
                if bad:
                    return True
                rows = new
                changed = True
                break
        if not changed:
            break
    for k, c in rows.items():
        nk = tuple((s, -v) for s, v in k)
        if nk in rows and rows[nk] + c < 0:
            return True
    return rows


def _lp_infeasible(rows):
    """phase-1 simplex (exact, Bland's rule) for  t.x + c >= 0  with free x: True when there is no rational solution"""
    from fractions import Fraction
    FM_STATS["lp"] = FM_STATS.get("lp", 0) + 1
    cons = list(rows.items())
    syms = sorted({s for k, c in cons for s, v in k})
    n, m = len(syms), len(cons)
    col = {s: i for i, s in enumerate(syms)}
    # columns: x+ (n) | x- (n) | slack (m) | artificial (m, only where needed) ; rhs last
    ncol = 2 * n + m
    T = []
    basis = []
    arts = []
    for i, (k, c) in enumerate(cons):
        r = [Fraction(0)] * (ncol + 1)
        # t.x - s = -c
        for s, v in k:
            r[col[s]] = Fraction(v)
            r[n + col[s]] = Fraction(-v)
        r[2 * n + i] = Fraction(-1)
        r[ncol] = Fraction(-c)
        if r[ncol] <= 0:
            r = [-x for x in r]          # -t.x + s = c  with c >= 0: slack is basic
            basis.append(2 * n + i)
        else:
            basis.append(None)
            arts.append(i)
        T.append(r)
    if not arts:
        return False
    # add artificial columns
    na = len(arts)
    for i, r in enumerate(T):
        rhs = r.pop()
        r.extend([Fraction(0)] * na)
        r.append(rhs)
    for j, i in enumerate(arts):
        T[i][ncol + j] = Fraction(1)
        basis[i] = ncol + j
    tot = ncol + na
    # objective: minimise sum of artificials  ->  reduced costs
    z = [Fraction(0)] * (tot + 1)
    for i in arts:
        for j in range(tot + 1):
            z[j] -= T[i][j]
    for j in range(ncol, tot):
        z[j] = Fraction(0)
    it = 0
    while True:
        it += 1
        if it > 5000:
            return False
        ent = None
        for j in range(tot):
            if z[j] < 0:
                ent = j
                break
        if ent is None:
            break
        lv = None
        best = None
        for i in range(m):
            a = T[i][ent]
            if a > 0:
                ratio = T[i][tot] / a
                if best is None or ratio < best or (ratio == best and basis[i] < basis[lv]):
                    best, lv = ratio, i
        if lv is None:
            return False      # unbounded cannot happen for phase 1; be safe
        pv = T[lv][ent]
        T[lv] = [x / pv for x in T[lv]]
        for i in range(m):
            if i != lv and T[i][ent] != 0:
                fct = T[i][ent]
                Ti, Tl = T[i], T[lv]
                T[i] = [x - fct * y for x, y in zip(Ti, Tl)]
        if z[ent] != 0:
            fct = z[ent]
            z = [x - fct * y for x, y in zip(z, T[lv])]
        basis[lv] = ent
    # optimum of phase 1 is -z[tot]
    return -z[tot] > 0


def _fm(rows, limit):
    rows = dict(rows)
    while True:
        # opposite pairs:  t + c1 >= 0 and -t + c2 >= 0  need c1 + c2 >= 0
        for k, c in rows.items():
            nk = tuple((s, -v) for s, v in k)
            if nk in rows and rows[nk] + c < 0:
                return True
        vars_ = {}
        for k in rows:
            for s, v in k:
                p = vars_.setdefault(s, [0, 0])
                p[0 if v > 0 else 1] += 1
        if not vars_:
            return False
        # a symbol bounded from one side only can always be chosen to satisfy its rows
        onesided = [s for s, (p, n) in vars_.items() if p == 0 or n == 0]
        if onesided:
            drop = set(onesided)
            rows = {k: c for k, c in rows.items() if not any(s in drop for s, v in k)}
            continue
        s = min(vars_, key=lambda s: vars_[s][0] * vars_[s][1] - vars_[s][0] - vars_[s][1])
        pos, neg, rest = [], [], {}
        for k, c in rows.items():
            d = dict(k)
            if s in d:
                (pos if d[s] > 0 else neg).append((d, c))
            else:
                rest[k] = c
        if len(rest) + len(pos) * len(neg) > limit:
            FM_STATS["gaveup"] += 1
            return None
        for dp, cp in pos:
            a = dp[s]
            for dn, cn in neg:
                b = -dn[s]
                t = {}
                for x, v in dp.items():
                    if x != s:
                        t[x] = t.get(x, 0) + v * b
                for x, v in dn.items():
                    if x != s:
                        t[x] = t.get(x, 0) + v * a
                t = {x: v for x, v in t.items() if v}
                c = cp * b + cn * a
                t, c = _norm(t, c)
                if not t:
                    if c < 0:
                        return True
                    continue
                k = tuple(sorted(t.items()))
                if k not in rest or rest[k] > c:
                    rest[k] = c
        rows = rest


# ---------------------------------------------------------------------------------------------------------------
# values
# ---------------------------------------------------------------------------------------------------------------
class Region:
    _n = 0

    def __init__(self, name, size, kind):
        Region._n += 1
        self.id = Region._n
        self.name = name
        self.size = size        # Lin (bytes)
        self.kind = kind        # "storage" | "contract" | "local" | "alloc"
        self.rec = None         # record name when the area is an array of records (elements become objects on access)

    def __repr__(self):
        return "<%s#%d size=%r>" % (self.name, self.id, self.size)


class Ptr:
    """pointer into a byte region; region None = the null pointer"""
    __slots__ = ("region", "off", "maybe_null")

    def __init__(self, region, off, maybe_null=False):
        self.region = region
        self.off = off
        self.maybe_null = maybe_null

    def __eq__(self, o):
        return isinstance(o, Ptr) and self.region is o.region and self.off == o.off and self.maybe_null == o.maybe_null

    def __hash__(self):
        return hash((id(self.region), self.off, self.maybe_null))

    def __repr__(self):
        if self.region is None:
            return "NULL"
        return "&%s[%r]%s" % (self.region.name, self.off, "?" if self.maybe_null else "")


NULL = Ptr(None, Lin.const(0))


class Clobbered:
    """value of a member whose bytes were overwritten through the array it overlays"""
    def __repr__(self):
        return "<overwritten>"


CLOBBERED = Clobbered()


class ObjPtr:
    """pointer to a struct object (or to a sub-object: prefix ends with '.'); boff = byte displacement (container_of)"""
    __slots__ = ("obj", "prefix", "maybe_null", "boff")

    def __init__(self, obj, prefix="", maybe_null=False, boff=0):
        self.obj = obj
        self.prefix = prefix
        self.maybe_null = maybe_null
        self.boff = boff

    def __eq__(self, o):
        return isinstance(o, ObjPtr) and (self.obj, self.prefix, self.maybe_null, self.boff) == (o.obj, o.prefix, o.maybe_null, o.boff)

    def __hash__(self):
        return hash((self.obj, self.prefix, self.maybe_null, self.boff))

    def __repr__(self):
        return "&obj(%s,%s)%s" % (self.obj, self.prefix, ("%+d" % self.boff) if self.boff else "")


class AddrOf:
    __slots__ = ("loc",)

    def __init__(self, loc):
        self.loc = loc

    def __eq__(self, o):
        return isinstance(o, AddrOf) and self.loc == o.loc

    def __hash__(self):
        return hash(self.loc)

    def __repr__(self):
        return "&%s" % (self.loc,)


class StructVal:
    """rvalue of record type: a snapshot is not needed, the source location is enough (copied immediately)"""
    __slots__ = ("obj", "prefix", "rec")

    def __init__(self, obj, prefix, rec):
        self.obj, self.prefix, self.rec = obj, prefix, rec


class MemLoc:
    """lvalue inside a byte region"""
    __slots__ = ("region", "off", "size", "maybe_null")

    def __init__(self, region, off, size, maybe_null=False):
        self.region, self.off, self.size, self.maybe_null = region, off, size, maybe_null


class State:
    __slots__ = ("env", "cons", "cache", "trail", "dead", "gen", "joined", "lost")

    def __init__(self):
        self.gen = {}
        self.joined = False
        self.lost = frozenset()    # symbols about which a join on the way here dropped a constraint of some side
        self.env = {}
        self.cons = {}      # key -> (t, c)
        self.cache = {}
        self.trail = ()     # branch decisions (text), for diagnostics
        self.dead = False

    def copy(self):
        s = State()
        s.env = dict(self.env)
        s.cons = dict(self.cons)
        s.cache = dict(self.cache)
        s.trail = self.trail
        s.gen = dict(self.gen)
        s.joined = self.joined
        s.lost = self.lost
        return s

    def cone(self, syms):
        """symbols connected to syms through the constraints"""
        want = set(syms)
        rows = [set(s for s, v in k) for k in self.cons]
        changed = True
        while changed:
            changed = False
            for r in rows:
                if not r <= want and r & want:
                    want |= r
                    changed = True
        return want

    def add(self, lin):
        """assume lin >= 0"""
        t, c = _norm(dict(lin.t), lin.c)
        if not t:
            if c < 0:
                self.dead = True
            return
        k = tuple(sorted(t.items()))
        if k not in self.cons or self.cons[k] > c:
            self.cons[k] = c

    def rows(self, about=None):
        rows = [(dict(k), c) for k, c in self.cons.items()]
        if about is None:
            return rows
        # cone of influence
        want = set(about)
        used = [False] * len(rows)
        changed = True
        while changed:
            changed = False
            for i, (t, c) in enumerate(rows):
                if not used[i] and any(s in want for s in t):
                    used[i] = True
                    n = len(want)
                    want.update(t)
                    changed = changed or len(want) != n or True
        return [r for i, r in enumerate(rows) if used[i]]

    def entails(self, lin):
        """every model of the constraints has lin >= 0"""
        if lin.is_const():
            return lin.c >= 0
        q = -lin - Lin.const(1)
        rows = self.rows(lin.syms())
        rows.append((dict(q.t), q.c))
        return infeasible(rows)

    def entails_eq(self, a, b):
        d = a - b
        if d.is_const():
            return d.c == 0
        return self.entails(d) and self.entails(-d)

    def feasible(self):
        if self.dead:
            return False
        return not infeasible(self.rows())


class Frame:
    _n = 0

    def __init__(self, func, depth, parent=None, site=None):
        Frame._n += 1
        self.id = Frame._n
        self.f = func
        self.depth = depth
        self.parent = parent
        self.site = site

    def chain(self):
        c, fr = [], self
        while fr is not None:
            c.append(fr.f.name)
            fr = fr.parent
        return list(reversed(c))

    def qchain(self):
        c, fr = set(), self
        while fr is not None:
            c.add(fr.f.qn)
            fr = fr.parent
        return c


class Obligation:
    __slots__ = ("kind", "func", "line", "text", "ok", "detail", "root", "chain", "exact")

    def __init__(self, kind, func, line, text, ok, detail, root, chain, exact=True):
        self.kind, self.func, self.line, self.text, self.ok, self.detail, self.root, self.chain = kind, func, line, text, ok, detail, root, chain
        self.exact = exact


PTRDIFF_MAX = (1 << 63) - 1
COPY_FUNCS = {"memcpy": (0, 1, 2, True), "memmove": (0, 1, 2, False), "__builtin_memcpy": (0, 1, 2, True), "__builtin_memmove": (0, 1, 2, False),
              "mempcpy": (0, 1, 2, True)}
SET_FUNCS = {"memset": (0, 2), "__builtin_memset": (0, 2), "bzero": (0, 1)}
READ_FUNCS = {"memchr": (0, 2), "memrchr": (0, 2), "write": (1, 2), "send": (1, 2)}
WRITE_FUNCS = {"read": (1, 2), "recv": (1, 2)}


class LinAnalysis:
    def __init__(self, prog, invariants=None, contracts=None, max_depth=4, max_states=400, inline_ok=None):
        self.prog = prog
        self.invariants = invariants or {}     # record name -> callback(an, st, obj, prefix, assume) -> list of (text, Lin>=0 / ("ptr", ...))
        self.contracts = contracts or {}       # function name -> {param name: ("bytes", size param name | int)}
        self.max_depth = max_depth
        self.max_states = max_states
        self.inline_ok = inline_ok
        self.modular = set()
        self.policy = None
        self.copy_hook = None
        self.objrec = {}          # (object, prefix) -> record name
        self.nobj = 0
        self.global_inv = {}      # static variable -> (lo, hi): assumed on load, owed on store
        self.slot_contracts = {}  # function pointer member name -> post(an, st, fr, e, args) -> [(state, value)]
        self.post = {}            # function name -> post(...) used at call sites instead of the body
        self._wants = {}
        self.max_returns = 10
        self.no_alias = set()      # records whose symbolic objects are taken to be pairwise different (well-formed structures)
        self.track_fields = set()  # member names whose stores are remembered per object ("stored" marks)
        self.track_writes = False   # remember how far writes into each area reached (USEDCOVER)
        self.flex = {}             # record -> (member array, bytes before it): inline area that extends to the end of the allocation
        self.track_wraps = False   # unsigned results that may have wrapped are resolved once a later test decides it
        self.taint_exact = bool(os.environ.get("LIN_TAINT"))   # a failure behind a join counts as exact when the join lost nothing in the obligation's cone
        self.indirect_hook = None  # hook(an, st, fr, call, args) at calls through function pointers without a contract
        self.view_hook = None      # hook(an, st, fr, construct, args) where an object is constructed from evaluated arguments
        self.exit_hook = None      # hook(an, st, fr, head, from block, to block) on every edge that leaves a loop
        self.noeffect = 0          # > 0 while a condition is read again for refinement: steps and assignments are not repeated
        self.peel = False          # first iteration of a loop is analysed on its own (the entry state is not joined into the head state)
        self.state_budget = None   # deterministic cut: number of block states processed
        self.over_budget = False
        self.cur = None
        self.sym_nonzero_lo = {}
        self.lazy = True          # unknown pointers to records are null or a valid object (type invariant)
        self.assumed = set()
        self.obls = []
        self.events = []
        self.nsym = 0
        self.symrange = {}
        self.root = None
        self.stats = {"states": 0, "inlined": 0, "paths": 0, "joins": 0, "havoc_calls": 0}

    # ---- symbols ------------------------------------------------------------------------------------------
    def fresh(self, st, name="t", lo=0, hi=UMAX):
        self.nsym += 1
        s = "%s#%d" % (name, self.nsym)
        self.symrange[s] = (lo, hi)
        v = Lin.sym(s)
        if lo is not None:
            st.add(v - Lin.const(lo))
        if hi is not None:
            st.add(Lin.const(hi) - v)
        return v

    def type_range(self, T):
        k = T.get("k")
        if k in ("int", "enum", "bool"):
            bits = T.get("bits") or 8 * T.get("sz", 8)
            if k == "bool":
                return 0, 1
            if T.get("signed"):
                return -(1 << (bits - 1)), (1 << (bits - 1)) - 1
            return 0, (1 << bits) - 1
        return None

    def fresh_of_type(self, st, f, tid, name="t"):
        T = f.T(tid)
        r = self.type_range(T)
        if r:
            return self.fresh(st, name, r[0], r[1])
        if T.get("k") == "ptr" and self.lazy:
            to = f.T(T.get("to"))
            if to.get("k") == "record" and to.get("name") in self.prog.records and self.wants_object(to.get("name")):
                return self.lazy_object(st, f, to.get("name"))
        return None

    def wants_object(self, rec):
        """records worth modelling as objects: those with an invariant somewhere inside"""
        c = self._wants.get(rec)
        if c is None:
            self._wants[rec] = False
            c = bool(self.inv_objects(rec, None, ""))
            if not c:
                # one pointer hop: a record holding a pointer to a record with an invariant (array -> buffer)
                r = self.prog.records.get(rec)
                for fl in (r or {}).get("fields", []):
                    T = r["unit"].types[fl["t"]] if fl["t"] is not None and fl["t"] >= 0 else {}
                    if T.get("k") == "ptr":
                        to = r["unit"].types[T["to"]] if T.get("to") is not None and T["to"] >= 0 else {}
                        if to.get("k") == "record" and to.get("name") != rec and self.inv_objects(to.get("name"), None, ""):
                            c = True
                    elif T.get("k") == "record" and T.get("name") != rec and self.wants_object(T.get("name")):
                        c = True
            self._wants[rec] = c
        return c

    def lazy_object(self, st, f, rec, maybe_null=True, kind="L"):
        self.nobj += 1
        obj = "%s%d" % (kind, self.nobj)
        self.make_object(st, f, rec, obj, "", assume=True)
        return ObjPtr(obj, "", maybe_null)

    def payload_of(self, st, obj, prefix):
        """byte area that follows the (sub-)object: its own, or that of the enclosing object it ends"""
        r = st.env.get(("payload", obj, prefix))
        if r is not None:
            return r
        # last member of its parent?
        if prefix:
            parent = prefix[:-1].rsplit(".", 1)[0] + "." if "." in prefix[:-1] else ""
            member = prefix[:-1].rsplit(".", 1)[-1]
            prec = self.objrec.get((obj, parent))
            R = self.prog.records.get(prec) if prec else None
            if R and R["fields"] and R["fields"][-1]["n"] == member:
                return self.payload_of(st, obj, parent)
        # a last member carries it
        rec = self.objrec.get((obj, prefix))
        R = self.prog.records.get(rec) if rec else None
        if R and R["fields"]:
            fl = R["fields"][-1]
            T = R["unit"].types[fl["t"]] if fl["t"] is not None and fl["t"] >= 0 else {}
            if T.get("k") == "record":
                return st.env.get(("payload", obj, prefix + fl["n"] + "."))
        return None

    def reroot(self, st, fr, obj, prefix, container, member):
        """container_of: the object (obj, prefix) is member `member` of a `container` record: give it an enclosing object"""
        if prefix:
            return None
        self.nobj += 1
        C = "C%d" % self.nobj
        pre = member + "."
        for k in list(st.env):
            if len(k) >= 3 and k[0] in ("f", "payload", "havoc") and k[1] == obj:
                st.env[(k[0], C, pre + k[2])] = st.env.pop(k)
        for k, r in list(self.objrec.items()):
            if k[0] == obj:
                self.objrec[(C, pre + k[1])] = r
        self.objrec[(C, "")] = container

        def fix(v):
            if isinstance(v, ObjPtr) and v.obj == obj:
                return ObjPtr(C, pre + v.prefix, v.maybe_null, v.boff)
            return v
        for k in list(st.env):
            if k[0] == "powner" and isinstance(st.env[k], tuple) and st.env[k][0] == obj:
                st.env[k] = (C, pre + st.env[k][1])
                continue
            st.env[k] = fix(st.env[k])
        for k in list(st.cache):
            st.cache[k] = fix(st.cache[k])
        # remaining fields of the container: lazily unknown
        return C

    # ---- entry ----------------------------------------------------------------------------------------------
    def record_of(self, f, tid):
        T = f.T(tid)
        if T.get("k") == "record":
            return T.get("name")
        return None

    def make_object(self, st, f, rec, obj, prefix="", assume=True):
        """symbolic content for the fields of a record object; invariants are assumed when asked"""
        r = self.prog.records.get(rec)
        if r is None:
            return
        self.objrec.setdefault((obj, prefix), rec)
        u = r["unit"]
        for b in r.get("bases") or []:
            if b.get("name") != rec:
                self.make_object(st, f, b.get("name"), obj, prefix, assume)
        for fl in r["fields"]:
            T = u.types[fl["t"]] if fl["t"] is not None and fl["t"] >= 0 else {}
            loc = ("f", obj, prefix + fl["n"])
            if T.get("k") == "record":
                self.make_object(st, f, T.get("name"), obj, prefix + fl["n"] + ".", assume)
                continue
            rg = self.type_range(T)
            if rg:
                st.env[loc] = self.fresh(st, "%s.%s%s" % (obj if isinstance(obj, str) else "o", prefix, fl["n"]), rg[0], rg[1])
        inv = self.invariants.get(rec)
        if inv and assume:
            inv(self, st, obj, prefix, True)

    def inv_objects(self, rec, obj, prefix, seen=None):
        """(record, prefix) of every sub-object of obj (itself, bases, members) whose record has an invariant"""
        out = []
        seen = seen or set()
        if rec in seen:
            return out
        seen = seen | {rec}
        if rec in self.invariants:
            out.append((rec, prefix))
            return out
        r = self.prog.records.get(rec)
        if not r:
            return out
        for b in r.get("bases") or []:
            out.extend(self.inv_objects(b.get("name"), obj, prefix, seen))
        for fl in r["fields"]:
            T = r["unit"].types[fl["t"]] if fl["t"] is not None and fl["t"] >= 0 else {}
            if T.get("k") == "record":
                out.extend(self.inv_objects(T.get("name"), obj, prefix + fl["n"] + ".", seen))
        return out

    def entry_state(self, f):
        st = State()
        fr = Frame(f, 0)
        con = self.contracts.get(f.qn) or self.contracts.get(f.name, {})
        pvals = {}
        if f.d.get("method") and f.d.get("cls"):
            self.make_object(st, f, f.d["cls"], "P.this")
            st.env[("this", fr.id)] = ObjPtr("P.this")
        for p in f.params:
            T = f.T(p["t"])
            loc = ("v", fr.id, p["id"])
            if T.get("k") == "ptr":
                to = f.T(T.get("to"))
                if to.get("k") == "record" and p["n"] not in con:
                    obj = "P." + p["n"]
                    self.make_object(st, f, to.get("name"), obj)
                    st.env[loc] = ObjPtr(obj, "", True)      # callers may pass null: only a test in the function tells
                    continue
                if to.get("k") == "ptr" or to.get("k") == "func":
                    st.env[loc] = None
                    continue
                # byte / scalar buffers: size from the contract table, else unknown size
                st.env[loc] = ("pending", p)
            else:
                rg = self.type_range(T)
                if rg:
                    v = self.fresh(st, p["n"], rg[0], rg[1])
                    st.env[loc] = v
                    pvals[p["n"]] = v
                else:
                    st.env[loc] = None
        for p in f.params:
            loc = ("v", fr.id, p["id"])
            if isinstance(st.env.get(loc), tuple) and st.env[loc][0] == "pending":
                spec = con.get(p["n"])
                T = f.T(p["t"])
                to = f.T(T.get("to"))
                if spec and spec[0] == "bytes":
                    want = pvals.get(spec[1]) if isinstance(spec[1], str) else Lin.const(spec[1])
                    # at least the stated number of bytes (a negative count states nothing)
                    sz = self.fresh(st, "size." + p["n"], 0, (1 << 63) - 1)
                    if want is not None:
                        st.add(sz - want)
                    if len(spec) > 3:
                        st.add(Lin.const(spec[3]) - sz)
                    reg = Region("*" + p["n"], sz, "contract")
                    st.env[loc] = Ptr(reg, Lin.const(0), maybe_null=spec[2] if len(spec) > 2 else True)
                elif spec and spec[0] == "records":
                    cnt = pvals.get(spec[1]) if isinstance(spec[1], str) else Lin.const(spec[1])
                    R = self.prog.records.get(to.get("name")) or {}
                    rsz = R.get("size", 0) or to.get("sz", 0) or 1
                    if cnt is None:
                        cnt = self.fresh(st, "count." + p["n"], 0, PTRDIFF_MAX // rsz)
                    st.add(Lin.const(PTRDIFF_MAX // rsz) - cnt)
                    reg = Region("*" + p["n"], cnt.scale(rsz), "contract")
                    reg.rec = to.get("name")
                    st.env[loc] = Ptr(reg, Lin.const(0), maybe_null=spec[2] if len(spec) > 2 else True)
                elif spec and spec[0] == "scalar":
                    st.env[loc] = AddrOf(("x", fr.id, p["id"]))
                elif to.get("k") in ("int", "enum", "bool") and to.get("sz", 1) > 1 or (to.get("k") == "ptr"):
                    # out-parameter of scalar type
                    st.env[loc] = AddrOf(("x", fr.id, p["id"]))
                else:
                    # a caller buffer without a stated length: accesses through it are not judged
                    del st.env[loc]
        return st, fr

    # ---- obligations -----------------------------------------------------------------------------------------
    def oblige(self, kind, fr, e, ok, detail, st=None, syms=None):
        f = fr.f
        st = st if st is not None else self.cur
        exact = not (st is not None and st.joined)
        if not exact and not ok and syms is not None and self.taint_exact:
            # joins on the way dropped constraints, but none about anything this obligation depends on: every side of those
            # joins had exactly these constraints over the obligation's cone of influence, the verdict is that of each side
            exact = not (st.cone(syms) & st.lost)
        self.obls.append(Obligation(kind, f, e.get("l", f.line) if isinstance(e, dict) else f.line,
                                    show(e, f) if isinstance(e, dict) else str(e), ok, detail, self.root.name if self.root else "", fr.chain(),
                                    exact=exact))

    def check_access(self, st, fr, e, ptr, n, what, elem=1):
        """[ptr, ptr+n) inside its region"""
        if isinstance(ptr, MemLoc):
            ptr = Ptr(ptr.region, ptr.off, ptr.maybe_null)
        if what == "write of data" and isinstance(ptr, Ptr) and ptr.region is not None and self.track_writes and isinstance(n, Lin):
            if not st.entails_eq(n, Lin.const(0)):
                k = ("written", ptr.region.id)
                ends = st.env.get(k, ())
                end = ptr.off + n
                if not any(st.entails(x[0] - end) for x in ends) and len(ends) < 6:
                    st.env[k] = ends + ((end, show(e, fr.f)[:60] if isinstance(e, dict) else "", fr.f.name),)
        if what.startswith("write") and isinstance(ptr, Ptr) and ptr.region is not None and self.track_writes and isinstance(n, Lin):
            k = ("wrote", ptr.region.id)
            iv = st.env.get(k, ())
            if len(iv) < 10:
                st.env[k] = iv + ((ptr.off, ptr.off + n),)
        if what.startswith("write") and isinstance(ptr, Ptr) and ptr.region is not None:
            ov = st.env.get(("overlay", ptr.region.id))
            if ov is not None and isinstance(n, Lin):
                obj, prefix, declared, member = ov
                if not st.entails_eq(n, Lin.const(0)) and not st.entails(Lin.const(declared) - ptr.off - n):
                    st.env[("f", obj, prefix + member)] = CLOBBERED      # the write may run over the member behind the array
        if not isinstance(ptr, Ptr) or ptr.region is None:
            self.stats["unknown_ptr_access"] = self.stats.get("unknown_ptr_access", 0) + 1
            return
        if not isinstance(n, Lin):
            n = self.fresh(st, "n")
        if st.entails_eq(n, Lin.const(0)):
            self.oblige("ACCESS", fr, e, True, "%s: zero length" % what)
            return
        lo_ok = st.entails(ptr.off)
        hi_ok = st.entails(ptr.region.size - ptr.off - n)
        ok = lo_ok and hi_ok
        detail = ""
        if not ok:
            detail = "%s %r + [0, %r) not shown inside %s (size %r)%s; path: %s" % (
                what, ptr.off, n, ptr.region.name, ptr.region.size, "" if lo_ok else " [start may precede the region]", " / ".join(st.trail[-8:]))
        self.oblige("ACCESS", fr, e, ok, detail, st, syms=ptr.off.syms() | n.syms() | ptr.region.size.syms())

    def elem_object(self, st, fr, e, reg, off):
        """element of an array of records at byte offset off: the object that stands for it (created on first access,
        invariant assumed; the same offset gives the same object as long as nothing was stored into the array)"""
        R = self.prog.records.get(reg.rec)
        if not R:
            return None
        sz = R.get("size", 0) or 0
        self.check_access(st, fr, e, Ptr(reg, off), Lin.const(sz), "element access")
        lst = st.env.get(("elems", reg.id), ())
        for o2, obj in lst:
            if o2 == off or st.entails_eq(o2, off):
                return obj
        self.nobj += 1
        obj = "E%d" % self.nobj
        self.make_object(st, fr.f, reg.rec, obj, "", assume=True)
        st.env[("elems", reg.id)] = lst[-5:] + ((off, obj),)
        return obj

    # ---- evaluation ------------------------------------------------------------------------------------------
    def lval(self, e, st, fr):
        """location of an lvalue expression"""
        e = strip(e, lvalue_to_rvalue=False)
        while e.get("k") == "cast" and e.get("ck") in ("NoOp",):
            e = e["e"]
        k = e.get("k")
        f = fr.f
        if k == "ref":
            d = e["d"]
            if "id" in d and d.get("dk") in ("local", "param"):
                return ("v", fr.id, d["id"])
            return ("g", d.get("n"))
        if k == "mem":
            b = e["b"]
            if e.get("arrow"):
                pv = self.ev(b, st, fr)
                if isinstance(pv, ObjPtr) and not pv.boff:
                    return ("f", pv.obj, pv.prefix + e["f"])
                if isinstance(pv, Ptr) and pv.region is not None and pv.region.rec:
                    obj = self.elem_object(st, fr, e, pv.region, pv.off)
                    return ("f", obj, e["f"]) if obj else None
                if isinstance(pv, Ptr) and pv.region is None:
                    self.oblige("NULLDEREF", fr, e, False, "member %s of a pointer that is null on this path: %s" % (e["f"], " / ".join(st.trail[-8:])))
                    st.dead = True
                return None
            bl = self.lval(b, st, fr)
            if isinstance(bl, MemLoc) and bl.region.rec:
                obj = self.elem_object(st, fr, e, bl.region, bl.off)
                return ("f", obj, e["f"]) if obj else None
            if bl is None or isinstance(bl, MemLoc):
                return None
            if bl[0] == "o":
                return ("f", bl[1], bl[2] + e["f"])
            if bl[0] == "v":
                return ("f", bl, e["f"])
            if bl[0] == "f":
                return ("f", bl[1], bl[2] + "." + e["f"])
            return None
        if k == "un" and e.get("op") == "*":
            inner = strip(e["e"], all_casts=True)
            if inner.get("k") == "call" and callee_name(inner) in ("__errno_location", "__error"):
                return ("g", "errno")
            pv = self.ev(e["e"], st, fr)
            if isinstance(pv, AddrOf):
                return pv.loc
            if isinstance(pv, ObjPtr):
                return ("o", pv.obj, pv.prefix)
            if isinstance(pv, Ptr) and pv.region is not None:
                if pv.region.rec and f.T(e.get("t")).get("k") == "record":
                    obj = self.elem_object(st, fr, e, pv.region, pv.off)
                    return ("o", obj, "") if obj else None
                sz = f.T(e.get("t")).get("sz", 1) or 1
                return MemLoc(pv.region, pv.off, sz, pv.maybe_null)
            return None
        if k == "idx":
            pv = self.ev(e["a"], st, fr)
            iv = self.ev(e["i"], st, fr)
            sz = f.T(e.get("t")).get("sz", 1) or 1
            if isinstance(pv, Ptr) and pv.region is not None and isinstance(iv, Lin):
                own = st.env.get(("powner", pv.region.id))
                if own is not None and iv.is_const() and iv.c == -1 and f.T(e.get("t")).get("k") == "record" and st.entails_eq(pv.off, Lin.const(0)):
                    return ("o", own[0], own[1])
                if pv.region.rec and f.T(e.get("t")).get("k") == "record":
                    obj = self.elem_object(st, fr, e, pv.region, pv.off + iv.scale(sz))
                    return ("o", obj, "") if obj else None
                return MemLoc(pv.region, pv.off + iv.scale(sz), sz, pv.maybe_null)
            return None
        if k == "cast":
            return self.lval(e["e"], st, fr)
        return None

    def load(self, loc, st, fr, e):
        if loc is None:
            return self.fresh_of_type(st, fr.f, e.get("t"))
        if isinstance(loc, MemLoc):
            self.check_access(st, fr, e, loc, Lin.const(loc.size), "read")
            return self.fresh_of_type(st, fr.f, e.get("t"))
        if loc[0] == "g":
            if loc in st.env and loc[1] != "errno":
                return st.env[loc]
            gi = self.global_inv.get(loc[1])
            if gi:
                v = self.fresh(st, loc[1], gi[0], gi[1])
                if len(gi) > 2:
                    self.sym_nonzero_lo[list(v.t)[0]] = gi[2]
                st.env[loc] = v
                return v
            return self.fresh_of_type(st, fr.f, e.get("t"))
        if loc[0] == "o":
            return StructVal(loc[1], loc[2], self.record_of(fr.f, e.get("t")))
        if loc in st.env:
            v = st.env[loc]
            if v is CLOBBERED:
                self.oblige("OVERLAY", fr, e, False, "%s is read after a write through the inline array in front of it may have overwritten it; path: %s" % (loc[2], " / ".join(st.trail[-8:])), st)
                return None
            return v
        rec = self.record_of(fr.f, e.get("t"))
        if rec:
            if loc[0] == "v":
                return StructVal(loc, "", rec)
            return StructVal(loc[1], loc[2] + ".", rec)
        T = fr.f.T(e.get("t"))
        if T.get("k") == "array" and loc[0] == "v":
            # local array: region created on first use
            reg = Region(str(loc), Lin.const(T.get("sz", 0) or 0), "local")
            st.env[loc] = Ptr(reg, Lin.const(0))
            return st.env[loc]
        if T.get("k") == "array" and loc[0] == "f":
            # member array: its declared bytes, or (flexible inline area) what the object's allocation leaves from there on
            path = loc[2]
            pre = path.rsplit(".", 1)[0] + "." if "." in path else ""
            fld = path.rsplit(".", 1)[-1]
            rec = self.objrec.get((loc[1], pre))
            size = Lin.const(T.get("sz", 0) or 0)
            fx = self.flex.get(rec)
            if fx and fx[0] == fld:
                pay = self.payload_of(st, loc[1], pre)
                R = self.prog.records.get(rec)
                if pay is not None and R:
                    size = Lin.const(R.get("size", 0) - fx[1]) + pay.size
            reg = Region("%s.%s" % (loc[1], path), size, "local")
            st.env[loc] = Ptr(reg, Lin.const(0))
            return st.env[loc]
        v = self.fresh_of_type(st, fr.f, e.get("t"))
        if v is not None:
            st.env[loc] = v
        return v

    def store(self, loc, v, st, fr, e):
        if loc is None:
            # store through an unknown pointer: forget what may alias (fields of objects)
            self.events.append(("unknown-store", fr.f.name, e.get("l")))
            for k in list(st.env):
                if k[0] == "f" and isinstance(k[1], str):
                    del st.env[k]
            return
        if isinstance(loc, MemLoc):
            self.check_access(st, fr, e, loc, Lin.const(loc.size), "write")
            return
        if loc[0] == "g":
            if loc[1] == "errno":
                st.env[loc] = v if v is not None else Lin.const(1)
            gi = self.global_inv.get(loc[1])
            if gi:
                ok = isinstance(v, Lin) and st.entails(v - Lin.const(gi[0])) and st.entails(Lin.const(gi[1]) - v)
                if ok and len(gi) > 2:
                    ok = st.entails_eq(v, Lin.const(0)) or st.entails(v - Lin.const(gi[2]))
                self.oblige("GLOBALINV", fr, e, ok, "" if ok else "value %r stored to %s not shown inside [%d, %d]; path: %s" % (v, loc[1], gi[0], gi[1], " / ".join(st.trail[-8:])))
                if isinstance(v, Lin):
                    st.env[loc] = v
                else:
                    st.env.pop(loc, None)
            return
        if loc[0] == "o" or isinstance(v, StructVal):
            # struct assignment: copy the fields
            if isinstance(v, StructVal):
                if loc[0] == "o":
                    dobj, dpre = loc[1], loc[2]
                elif loc[0] == "v":
                    dobj, dpre = loc, ""
                else:
                    dobj, dpre = loc[1], loc[2] + "."
                src = [(k, val) for k, val in st.env.items() if k[0] == "f" and k[1] == v.obj and k[2].startswith(v.prefix)]
                for k in [k for k in st.env if k[0] == "f" and k[1] == dobj and k[2].startswith(dpre)]:
                    del st.env[k]
                for k, val in src:
                    st.env[("f", dobj, dpre + k[2][len(v.prefix):])] = val
            return
        if v is None:
            st.env.pop(loc, None)
        else:
            st.env[loc] = v
        if loc[0] == "f" and isinstance(loc[1], str) and loc[1][:1] == "E":
            # another offset expression may name the same element: only this object keeps standing for its element
            for k in [k for k in st.env if k[0] == "elems"]:
                if any(o == loc[1] for x, o in st.env[k]):
                    st.env[k] = tuple((x, o) for x, o in st.env[k] if o == loc[1])
        if loc[0] == "f" and self.track_fields and loc[2].rsplit(".", 1)[-1] in self.track_fields:
            st.env[("stored", loc[1], loc[2])] = Lin.const(1)
        if loc[0] == "f" and isinstance(loc[1], str) and loc[1][0] in "PLC":
            # another symbolic object of the same record may be this one: its field is no longer known
            path = loc[2]
            pre = path.rsplit(".", 1)[0] + "." if "." in path else ""
            fld = path.rsplit(".", 1)[-1]
            rec = self.objrec.get((loc[1], pre))
            if rec and rec not in self.no_alias:
                for (o2, p2), r2 in self.objrec.items():
                    if r2 == rec and o2 != loc[1] and isinstance(o2, str) and o2[0] in "PLC" and ("distinct", loc[1], o2) not in st.env:
                        k2 = ("f", o2, p2 + fld)
                        if k2 in st.env and st.env[k2] != v:
                            del st.env[k2]

    def conv(self, v, st, f, tid, from_tid=None):
        """value after conversion to type tid"""
        if not isinstance(v, Lin):
            return v
        T = f.T(tid)
        rg = self.type_range(T)
        if rg is None:
            return v
        if v.is_const():
            if rg[0] <= v.c <= rg[1]:
                return v
            m = rg[1] - rg[0] + 1
            return Lin.const((v.c - rg[0]) % m + rg[0])
        if st.entails(v - Lin.const(rg[0])) and st.entails(Lin.const(rg[1]) - v):
            return v
        if not T.get("signed"):
            m = rg[1] + 1
            # one wrap down (negative operand of an unsigned conversion)
            if st.entails(-v - Lin.const(1)) and st.entails(v + Lin.const(m)):
                return v + Lin.const(m)
        self.events.append(("wrap", f.name, repr(v), " / ".join(st.trail[-6:])))
        w = self.fresh(st, "w", rg[0], rg[1])
        if self.track_wraps and not T.get("signed"):
            # whether this wrapped is often decided by the test the value sits in (`while (n--)`): remember what it stands for
            pend = [k for k in st.env if k[0] == "wrapof"]
            for k in pend[:-3]:
                st.lost = st.lost | {k[1]} | st.env[k][0].syms()      # what that value stood for is forgotten
                del st.env[k]
            st.env[("wrapof", list(w.t)[0])] = (v, rg[1] + 1)
        return w

    def ev(self, e, st, fr, top=False):
        if not isinstance(e, dict):
            return None
        if not top and "sid" in e:
            ck = (fr.id, e["sid"])
            if ck in st.cache:
                return st.cache[ck]
        v = self._ev(e, st, fr)
        if "sid" in e:
            st.cache[(fr.id, e["sid"])] = v
        return v

    def _ev(self, e, st, fr):
        f = fr.f
        k = e.get("k")
        cv = cval(e)
        if cv is not None and k not in ("call", "bin", "un") and f.T(e.get("t")).get("k") != "ptr":
            return Lin.const(cv)
        if k == "lit":
            return Lin.const(cv) if cv is not None else None
        if k == "sizeof" or k == "offsetof":
            return Lin.const(cv) if cv is not None else None
        if k == "cast":
            ck = e.get("ck")
            if ck == "LValueToRValue":
                loc = self.lval(e["e"], st, fr)
                return self.load(loc, st, fr, e["e"])
            if ck == "NullToPointer":
                return NULL
            if ck == "ArrayToPointerDecay":
                loc = self.lval(e["e"], st, fr)
                if loc is not None and not isinstance(loc, MemLoc):
                    return self.load(loc, st, fr, e["e"])
                if isinstance(loc, MemLoc):
                    return Ptr(loc.region, loc.off, loc.maybe_null)
                return None
            v = self.ev(e["e"], st, fr)
            if ck == "BitCast":
                v = self.cast_pointer(v, e, st, fr)
            if ck in ("NoOp", "BitCast", "FunctionToPointerDecay", "CPointerToObjCPointerCast", "UncheckedDerivedToBase", "DerivedToBase", "BaseToDerived", "ConstructorConversion", "UserDefinedConversion"):
                return v
            if ck in ("IntegralCast", "IntegralToBoolean", "BooleanToSignedIntegral"):
                if ck == "IntegralToBoolean":
                    return None if not isinstance(v, Lin) else (v if v.is_const() and v.c in (0, 1) else None)
                return self.conv(v, st, f, e.get("t"))
            if ck == "PointerToIntegral" or ck == "IntegralToPointer":
                if cv is not None and cv == 0:
                    return NULL
                return None
            if ck == "ToVoid":
                return None
            return v if ck in ("PointerToBoolean",) else None
        if k == "ref":
            d = e["d"]
            if d.get("dk") == "enumconst" and cv is not None:
                return Lin.const(cv)
            # a reference used as rvalue without cast (C++ references, arrays)
            loc = self.lval(e, st, fr)
            return self.load(loc, st, fr, e)
        if k == "mem" or k == "idx":
            loc = self.lval(e, st, fr)
            return self.load(loc, st, fr, e)
        if k == "this":
            return st.env.get(("this", fr.id))
        if k == "un":
            return self.ev_un(e, st, fr)
        if k == "bin":
            return self.ev_bin(e, st, fr)
        if k == "cond":
            t = self.truth(e["c"], st, fr)
            if t is True:
                return self.ev(e["a"], st, fr)
            if t is False:
                return self.ev(e["b"], st, fr)
            # undecided: a value between the two arms when they are ordered (`c ? n : 0` with n >= 0 gives 0 <= r <= n)
            has_effect = any(n.get("k") == "call" or (n.get("k") == "un" and n.get("op") in ("++", "--")) or
                             (n.get("k") == "bin" and n.get("op", "").endswith("=") and n["op"] not in ("==", "!=", "<=", ">="))
                             for arm in (e["a"], e["b"]) for n in walk(arm))
            r = self.fresh_of_type(st, f, e.get("t"))
            if not has_effect and isinstance(r, Lin):
                self.noeffect += 1
                try:
                    va, vb = self.ev(e["a"], st, fr), self.ev(e["b"], st, fr)
                finally:
                    self.noeffect -= 1
                if isinstance(va, Lin) and isinstance(vb, Lin):
                    for lo, hi in ((va, vb), (vb, va)):
                        if st.entails(hi - lo):
                            st.add(r - lo)
                            st.add(hi - r)
                            break
            return r
        if k == "construct" and self.view_hook is not None:
            # a view object built from (address, count): what the caller may read through it
            args = [self.ev(a, st, fr) for a in e.get("args", [])]
            self.view_hook(self, st, fr, e, args)
            return None
        if k == "call":
            # calls are evaluated as CFG elements by transfer(); reaching one here means it was not cached
            return self.fresh_of_type(st, f, e.get("t"))
        if k == "decl":
            for v in e.get("vars", []):
                loc = ("v", fr.id, v["id"])
                st.env.pop(loc, None)
                for kk in [kk for kk in st.env if kk[0] == "f" and kk[1] == loc]:
                    del st.env[kk]
                if v.get("init") is not None:
                    val = self.ev(v["init"], st, fr)
                    if isinstance(val, StructVal):
                        self.store(loc, val, st, fr, e)
                    elif val is not None:
                        st.env[loc] = self.conv(val, st, f, v.get("t")) if isinstance(val, Lin) else val
                    elif v["init"].get("k") in ("init", "zero"):
                        rec = self.record_of(f, v.get("t"))
                        if rec and v["init"].get("k") == "zero":
                            pass
            return None
        if k == "ret":
            return self.ev(e["e"], st, fr) if e.get("e") is not None else None
        if k == "complit":
            return self.ev(e["e"], st, fr)
        return self.fresh_of_type(st, f, e.get("t")) if e.get("t") is not None else None

    def cast_pointer(self, v, e, st, fr):
        """pointer casts that change what the pointer is taken for"""
        f = fr.f
        T = f.T(e.get("t"))
        to = f.T(T.get("to")) if T.get("k") == "ptr" else {}
        if to.get("k") != "record":
            return v
        rec = to.get("name")
        if isinstance(v, Ptr) and v.region is not None and v.region.kind == "alloc" and v.off.is_const() and v.off.c == 0 and self.wants_object(rec):
            # fresh allocation taken as a record: a new object (fields unset), what follows the record is its payload
            done = st.env.get(("asobj", v.region.id))
            if done is not None:
                return ObjPtr(done, "", v.maybe_null)
            self.nobj += 1
            obj = "N%d" % self.nobj
            self._name_subobjects(rec, obj, "")
            sz = to.get("sz", 0) or 0
            ok = st.entails(v.region.size - Lin.const(sz))
            self.oblige("ACCESS", fr, e, ok, "" if ok else "allocation of %r bytes taken as %s (%d bytes); path: %s" % (v.region.size, rec, sz, " / ".join(st.trail[-8:])))
            st.env[("payload", obj, "")] = Region("payload(%s)" % obj, v.region.size - Lin.const(sz), "alloc")
            st.env[("asobj", v.region.id)] = obj
            return ObjPtr(obj, "", v.maybe_null)
        if isinstance(v, ObjPtr) and v.boff:
            R = self.prog.records.get(rec)
            sub = self.objrec.get((v.obj, v.prefix))
            for fl in (R or {}).get("fields", []):
                FT = R["unit"].types[fl["t"]] if fl["t"] is not None and fl["t"] >= 0 else {}
                if fl.get("off") == -v.boff and FT.get("k") == "record" and (sub is None or self._same_record(FT.get("name"), sub)):
                    if (v.obj, "") in self.objrec and v.prefix.endswith(fl["n"] + ".") and self.objrec.get((v.obj, v.prefix[:-len(fl["n"]) - 1])) == rec:
                        return ObjPtr(v.obj, v.prefix[:-len(fl["n"]) - 1], v.maybe_null)
                    C = self.reroot(st, fr, v.obj, v.prefix, rec, fl["n"])
                    if C is not None:
                        return ObjPtr(C, "", v.maybe_null)
            return None
        return v

    @staticmethod
    def _same_record(a, b):
        n = lambda x: (x or "").replace("mpt::", "").replace("mpt_", "")
        return n(a) == n(b)

    def _name_subobjects(self, rec, obj, prefix):
        self.objrec[(obj, prefix)] = rec
        R = self.prog.records.get(rec)
        for fl in (R or {}).get("fields", []):
            T = R["unit"].types[fl["t"]] if fl["t"] is not None and fl["t"] >= 0 else {}
            if T.get("k") == "record" and T.get("name") != rec:
                self._name_subobjects(T.get("name"), obj, prefix + fl["n"] + ".")

    def ev_un(self, e, st, fr):
        f = fr.f
        op = e.get("op")
        if op == "&":
            loc = self.lval(e["e"], st, fr)
            if loc is None:
                return None
            if isinstance(loc, MemLoc):
                return Ptr(loc.region, loc.off, loc.maybe_null)
            rec = self.record_of(f, e["e"].get("t"))
            if rec:
                if loc[0] == "v":
                    return ObjPtr(loc, "")
                if loc[0] == "f":
                    return ObjPtr(loc[1], loc[2] + ".")
                if loc[0] == "o":
                    return ObjPtr(loc[1], loc[2])
            T = f.T(e["e"].get("t"))
            if T.get("k") == "array":
                return self.load(loc, st, fr, e["e"])
            return AddrOf(loc)
        if op == "*":
            loc = self.lval(e, st, fr)
            return self.load(loc, st, fr, e)
        if op in ("++", "--") and self.noeffect:
            # re-reading a condition that was evaluated already: the step was taken, only its value is wanted
            loc = self.lval(e["e"], st, fr)
            cur = self.load(loc, st, fr, e["e"])
            if not e.get("post"):
                return cur
            d = 1 if op == "++" else -1
            if isinstance(cur, Lin):
                return self._before_step(st, cur, d)
            if isinstance(cur, Ptr) and cur.region is not None:
                sz = f.T(f.pointee(e["e"].get("t"))).get("sz", 1) or 1
                return Ptr(cur.region, cur.off - Lin.const(d * sz), cur.maybe_null)
            return None
        if op in ("++", "--"):
            loc = self.lval(e["e"], st, fr)
            old = self.load(loc, st, fr, e["e"])
            d = 1 if op == "++" else -1
            new = None
            if isinstance(old, Lin):
                new = self.conv(old + Lin.const(d), st, f, e["e"].get("t"))
            elif isinstance(old, Ptr) and old.region is not None:
                sz = f.T(f.pointee(e["e"].get("t"))).get("sz", 1) or 1
                new = Ptr(old.region, old.off + Lin.const(d * sz), old.maybe_null)
                own = st.env.get(("powner", old.region.id))
                if d == -1 and own is not None and f.T(f.pointee(e["e"].get("t"))).get("k") == "record" and st.entails_eq(old.off, Lin.const(0)):
                    new = ObjPtr(own[0], own[1], old.maybe_null)        # one header before the payload: the object itself
            self.store(loc, new, st, fr, e)
            return old if e.get("post") else new
        v = self.ev(e["e"], st, fr)
        if op == "-":
            return self.conv(-v, st, f, e.get("t")) if isinstance(v, Lin) else None
        if op == "+":
            return v
        if op == "!":
            # the operand was evaluated above (once: it may assign); its truth comes from that value, and from the
            # structure only when evaluating again has no effect
            t = self._truth_val(v, st)
            if t is None and not any(n.get("k") == "call" or (n.get("k") == "un" and n.get("op") in ("++", "--")) or
                                     (n.get("k") == "bin" and n.get("op", "").endswith("=") and n["op"] not in ("==", "!=", "<=", ">=")) for n in walk(e["e"])):
                t = self.truth(e["e"], st, fr)
            if t is None:
                return self.fresh(st, "b", 0, 1)
            return Lin.const(0 if t else 1)
        if op == "~":
            if isinstance(v, Lin):
                return self.conv(-v - Lin.const(1), st, f, e.get("t"))
            return None
        return self.fresh_of_type(st, f, e.get("t"))

    def ptr_elem(self, f, tid):
        to = f.pointee(tid)
        if to is None:
            return 1
        T = f.T(to)
        if T.get("k") == "void":
            return 1
        return T.get("sz", 1) or 1

    def arith(self, op, a, b, st, fr, e):
        f = fr.f
        tid = e.get("t")
        T = f.T(tid)
        if op in ("+", "-"):
            if isinstance(a, Ptr) and isinstance(b, Lin) and a.region is not None:
                sz = self.ptr_elem(f, e["a"].get("t") if "a" in e else tid)
                own = st.env.get(("powner", a.region.id))
                if own is not None and op == "-" and b.is_const() and b.c == 1 and st.entails_eq(a.off, Lin.const(0)):
                    pt = f.T(e["a"].get("t") if "a" in e else tid)
                    if f.T(pt.get("to")).get("k") == "record":
                        return ObjPtr(own[0], own[1], a.maybe_null)
                return Ptr(a.region, a.off + (b.scale(sz) if op == "+" else -b.scale(sz)), a.maybe_null)
            if isinstance(b, Ptr) and isinstance(a, Lin) and op == "+" and b.region is not None:
                sz = self.ptr_elem(f, e["b"].get("t"))
                return Ptr(b.region, b.off + a.scale(sz), b.maybe_null)
            if isinstance(a, Ptr) and isinstance(b, Ptr) and op == "-" and a.region is b.region and a.region is not None:
                sz = self.ptr_elem(f, e["a"].get("t"))
                d = a.off - b.off
                if sz == 1:
                    return d
                return None
            if isinstance(a, Lin) and isinstance(b, Lin):
                r = a + b if op == "+" else a - b
                return self.conv(r, st, f, tid)
            if isinstance(a, ObjPtr) and isinstance(b, Lin) and b.is_const():
                pt = f.T(e["a"].get("t") if "a" in e else tid)
                to = f.T(pt.get("to")) if pt.get("k") == "ptr" else {}
                if to.get("k") == "record":
                    if op == "+" and b.c == 1 and not a.boff:
                        reg = self.payload_of(st, a.obj, a.prefix)
                        if reg is not None:
                            return Ptr(reg, Lin.const(0), a.maybe_null)
                    if b.c == 0:
                        return a
                    return None
                # byte arithmetic on an object pointer: remember the displacement (container_of)
                return ObjPtr(a.obj, a.prefix, a.maybe_null, a.boff + (b.c if op == "+" else -b.c))
            if T.get("k") == "ptr":
                return None
            return self.fresh_of_type(st, f, tid)
        if not (isinstance(a, Lin) and isinstance(b, Lin)):
            return self.fresh_of_type(st, f, tid)
        if op == "*":
            if a.is_const():
                return self.conv(b.scale(a.c), st, f, tid)
            if b.is_const():
                return self.conv(a.scale(b.c), st, f, tid)
            # (q + c) * p with the product q*p on record
            for x, y in ((a, b), (b, a)):
                if len(y.t) == 1 and y.c == 0 and list(y.t.values()) == [1] and len(x.t) == 1 and list(x.t.values()) == [1]:
                    m = st.env.get(("mul", list(x.t)[0], list(y.t)[0]))
                    if m is not None:
                        return self.conv(m + y.scale(x.c), st, f, tid)
            r = self.fresh_of_type(st, f, tid)
            return r
        if op in ("/", "%"):
            if b.is_const() and b.c > 0 and st.entails(a):
                dk = ("div", a.key(), b.c)
                q = st.env.get(dk)
                if q is None:
                    q = self.fresh(st, "q", 0, UMAX)
                    # b*q <= a <= b*q + b - 1
                    st.add(a - q.scale(b.c))
                    st.add(q.scale(b.c) + Lin.const(b.c - 1) - a)
                    st.env[dk] = q
                if op == "/":
                    return q
                return a - q.scale(b.c)
            if len(b.t) == 1 and b.c == 0 and list(b.t.values()) == [1] and st.entails(a) and st.entails(b) and not st.entails(b - Lin.const(1)):
                st.add(b - Lin.const(1))       # a division by zero is no defined execution: behind it the divisor is at least 1
            if len(b.t) == 1 and b.c == 0 and list(b.t.values()) == [1] and st.entails(a) and st.entails(b - Lin.const(1)):
                # quotient by a symbol p: remember the product m = q*p with m <= a <= m + p - 1
                psym = list(b.t)[0]
                dk = ("divs", a.key(), psym)
                qm = st.env.get(dk)
                if qm is None:
                    q = self.fresh(st, "q", 0, UMAX)
                    m = self.fresh(st, "m", 0, UMAX)
                    st.add(a - m)
                    st.add(m + b - Lin.const(1) - a)
                    st.add(a - q)
                    st.add(m - q)
                    if st.entails(b - Lin.const(2)):
                        st.add(m - q.scale(2))
                    st.env[dk] = (q, m)
                    st.env[("mul", list(q.t)[0], psym)] = m
                    qm = (q, m)
                return qm[0] if op == "/" else a - qm[1]
            r = self.fresh_of_type(st, f, tid)
            if isinstance(r, Lin) and st.entails(a) and st.entails(b):
                st.add(r)
                st.add(a - r)            # a / b <= a and a % b <= a for b >= 1 (b == 0 is no defined execution)
                if op == "%" and st.entails(b - Lin.const(1)):
                    st.add(b - Lin.const(1) - r)     # a % b < b
            return r
        if op in ("<<", ">>"):
            if b.is_const() and 0 <= b.c < 63:
                if op == "<<":
                    return self.conv(a.scale(1 << b.c), st, f, tid)
                if st.entails(a):
                    q = self.fresh(st, "q", 0, UMAX)
                    m = 1 << b.c
                    st.add(a - q.scale(m))
                    st.add(q.scale(m) + Lin.const(m - 1) - a)
                    return q
            return self.fresh_of_type(st, f, tid)
        if op in ("&", "|") and (a.is_const() != b.is_const()):
            x, c = (b, a.c) if a.is_const() else (a, b.c)
            bf = self.bits_of(st, x)
            if bf is not None:
                km, kv = bf
                if op == "&":
                    if (c & ~km) == 0 and c >= 0:
                        return self.conv(Lin.const(kv & c), st, f, tid)      # every tested bit is known
                    r = self.fresh_of_type(st, f, tid)
                    if isinstance(r, Lin) and len(r.t) == 1:
                        nkm = km | (~c & 0xffffffff)
                        st.env[("bits", list(r.t)[0])] = (nkm, kv & c & nkm)
                        if st.entails(x):
                            st.add(x - r)
                            st.add(r)
                        return r
                else:
                    r = self.fresh_of_type(st, f, tid)
                    if isinstance(r, Lin) and len(r.t) == 1 and c >= 0:
                        st.env[("bits", list(r.t)[0])] = (km | c, kv | c)
                        self._or_bounds(st, x, c, r)
                        return r
            elif op == "|" and c >= 0:
                r = self.fresh_of_type(st, f, tid)
                if isinstance(r, Lin) and len(r.t) == 1:
                    st.env[("bits", list(r.t)[0])] = (c, c)
                    self._or_bounds(st, x, c, r)
                    return r
            elif op == "&" and c < 0:
                # clearing bits: the cleared ones are known afterwards
                r = self.fresh_of_type(st, f, tid)
                if isinstance(r, Lin) and len(r.t) == 1:
                    st.env[("bits", list(r.t)[0])] = (~c & 0xffffffff, 0)
                    if st.entails(x):
                        st.add(x - r)
                        st.add(r)
                    return r
        if op in ("&", "|", "^") and a.is_const() and b.is_const():
            v = a.c & b.c if op == "&" else (a.c | b.c if op == "|" else a.c ^ b.c)
            return self.conv(Lin.const(v), st, f, tid)
        if op == "&" and ((a.is_const() and a.c == -1) or (b.is_const() and b.c == -1)):
            return self.conv(b if a.is_const() and a.c == -1 else a, st, f, tid)
        if op == "&":
            r = self.fresh_of_type(st, f, tid)
            if isinstance(r, Lin):
                if st.entails(a):
                    st.add(a - r)
                if st.entails(b):
                    st.add(b - r)
                if st.entails(a) or st.entails(b):
                    st.add(r)
            return r
        if op in ("|", "^"):
            r = self.fresh_of_type(st, f, tid)
            return r
        return self.fresh_of_type(st, f, tid)

    def bits_of(self, st, x):
        """(known mask, known value) of a value that is one symbol"""
        if isinstance(x, Lin) and len(x.t) == 1 and x.c == 0 and list(x.t.values()) == [1]:
            return st.env.get(("bits", list(x.t)[0]))
        return None

    def _or_bounds(self, st, x, c, r):
        """r = x | c for c >= 0: r >= x, r >= c, and r stays below the power of two both are below"""
        if st.entails(x):
            st.add(r - x)
            st.add(r - Lin.const(c))
            for k in (8, 16, 32):
                lim = (1 << k) - 1
                if c <= lim and st.entails(Lin.const(lim) - x):
                    st.add(Lin.const(lim) - r)
                    break

    def ev_bin(self, e, st, fr):
        f = fr.f
        op = e["op"]
        if self.noeffect and op.endswith("=") and op not in ("==", "!=", "<=", ">="):
            return self.load(self.lval(e["a"], st, fr), st, fr, e["a"])
        if self.noeffect and op == ",":
            return self.ev(e["b"], st, fr)
        if op == "=":
            rec = self.record_of(f, e.get("t"))
            v = self.ev(e["b"], st, fr)
            loc = self.lval(e["a"], st, fr)
            if isinstance(v, Lin):
                v = self.conv(v, st, f, e["a"].get("t"))
            self.store(loc, v, st, fr, e)
            return v
        if op == ",":
            self.ev(e["a"], st, fr)
            return self.ev(e["b"], st, fr)
        if op in ("&&", "||"):
            t = self.truth(e, st, fr)
            if t is None:
                return self.fresh(st, "b", 0, 1)
            return Lin.const(1 if t else 0)
        if op.endswith("=") and op not in ("==", "!=", "<=", ">="):
            loc = self.lval(e["a"], st, fr)
            old = self.load(loc, st, fr, e["a"])
            b = self.ev(e["b"], st, fr)
            # computation type of compound assignment
            ee = {"t": e.get("ct", e["a"].get("t")), "a": e["a"], "b": e["b"]}
            if isinstance(old, Ptr):
                ee["t"] = e["a"].get("t")
            v = self.arith(op[:-1], old, b, st, fr, ee)
            if isinstance(v, Lin):
                v = self.conv(v, st, f, e["a"].get("t"))
            self.store(loc, v, st, fr, e)
            return v
        if op in ("<", ">", "<=", ">=", "==", "!="):
            t = self.truth(e, st, fr)
            if t is None:
                return self.fresh(st, "b", 0, 1)
            return Lin.const(1 if t else 0)
        a = self.ev(e["a"], st, fr)
        b = self.ev(e["b"], st, fr)
        return self.arith(op, a, b, st, fr, e)

    def _before_step(self, st, cur, d):
        """value a variable had before `x += d` gave it the value cur: for a result that may have wrapped, what it stands for
        (the unwrapped sum) minus the step, otherwise cur - d"""
        if len(cur.t) == 1 and cur.c == 0 and list(cur.t.values()) == [1]:
            rec = st.env.get(("wrapof", list(cur.t)[0]))
            if rec is not None:
                return rec[0] - Lin.const(d)
        return cur - Lin.const(d)

    def evq(self, e, st, fr):
        """value of a condition operand without repeating its side effect (the condition was evaluated as an element)"""
        x = strip(e, all_casts=False)
        inner = x
        casts = []
        while isinstance(inner, dict) and inner.get("k") == "cast" and inner.get("ck") in ("IntegralCast", "NoOp", "BitCast") and "sid" not in inner:
            casts.append(inner)
            inner = inner["e"]
        if isinstance(inner, dict) and "sid" in inner and (fr.id, inner["sid"]) in st.cache:
            v = st.cache[(fr.id, inner["sid"])]
        elif isinstance(inner, dict) and inner.get("k") == "bin" and inner.get("op", "").endswith("=") and inner["op"] not in ("==", "!=", "<=", ">="):
            v = self.load(self.lval(inner["a"], st, fr), st, fr, inner["a"])
        elif isinstance(inner, dict) and inner.get("k") == "un" and inner.get("op") in ("++", "--"):
            v = self.load(self.lval(inner["e"], st, fr), st, fr, inner["e"])
            if inner.get("post") and isinstance(v, Lin):
                v = self._before_step(st, v, 1 if inner["op"] == "++" else -1)
        else:
            self.noeffect += 1
            try:
                return self.ev(e, st, fr)
            finally:
                self.noeffect -= 1
        for c in reversed(casts):
            if c.get("ck") == "IntegralCast" and isinstance(v, Lin):
                v = self.conv(v, st, fr.f, c.get("t"))
        return v

    # ---- conditions ----------------------------------------------------------------------------------------
    def cmp_lin(self, op, a, b):
        """constraints (list of Lin >= 0) for a op b; None when it is a disjunction"""
        if op == "<":
            return [b - a - Lin.const(1)]
        if op == "<=":
            return [b - a]
        if op == ">":
            return [a - b - Lin.const(1)]
        if op == ">=":
            return [a - b]
        if op == "==":
            return [a - b, b - a]
        return None

    NEG = {"<": ">=", "<=": ">", ">": "<=", ">=": "<", "==": "!=", "!=": "=="}

    def truth(self, c, st, fr):
        """True/False when the constraints decide the condition, else None (pure)"""
        cv = cval(c)
        if cv is not None:
            return bool(cv)
        k = c.get("k")
        if k == "cast":
            return self.truth(c["e"], st, fr) if c.get("ck") in ("IntegralToBoolean", "PointerToBoolean", "NoOp", "IntegralCast") and not self._narrowing(c, fr) else self._truth_val(self.ev(c, st, fr), st)
        if k == "un" and c.get("op") == "!":
            t = self.truth(c["e"], st, fr)
            return None if t is None else (not t)
        if k == "bin":
            op = c["op"]
            if op == "&&":
                a = self.truth(c["a"], st, fr)
                if a is False:
                    return False
                b = self.truth(c["b"], st, fr)
                if b is False:
                    return False
                return True if (a and b) else None
            if op == "||":
                a = self.truth(c["a"], st, fr)
                if a is True:
                    return True
                b = self.truth(c["b"], st, fr)
                if b is True:
                    return True
                return False if (a is False and b is False) else None
            if op in self.NEG:
                a = self.ev(c["a"], st, fr)
                b = self.ev(c["b"], st, fr)
                if isinstance(a, Ptr) and isinstance(b, Ptr):
                    if a.region is None and b.region is None:
                        return op in ("==", "<=", ">=")
                    if (a.region is None) != (b.region is None):
                        nn = a if b.region is None else b
                        if not nn.maybe_null and op in ("==", "!="):
                            return op == "!="
                        return None
                    if a.region is b.region:
                        a, b = a.off, b.off
                    elif op in ("==", "!=") and "alloc" in (a.region.kind, b.region.kind) and not a.maybe_null and not b.maybe_null:
                        return op == "!="      # a fresh allocation is no other object
                    else:
                        return None
                if isinstance(a, Lin) and isinstance(b, Lin):
                    return self.decide(op, a, b, st)
                return None
        return self._truth_val(self.ev(c, st, fr), st)

    def _narrowing(self, c, fr):
        if c.get("ck") != "IntegralCast":
            return False
        S = fr.f.T(c["e"].get("t"))
        T = fr.f.T(c.get("t"))
        return (T.get("sz", 8) or 8) < (S.get("sz", 8) or 8)

    def _truth_val(self, v, st):
        if isinstance(v, Lin):
            if v.is_const():
                return v.c != 0
            if st.entails(v - Lin.const(1)) or st.entails(-v - Lin.const(1)):
                return True
            if st.entails_eq(v, Lin.const(0)):
                return False
            return None
        if isinstance(v, Ptr):
            if v.region is None:
                return False
            return None if v.maybe_null else True
        if isinstance(v, (ObjPtr,)):
            return None if v.maybe_null else True
        if isinstance(v, AddrOf):
            return True
        return None

    def decide(self, op, a, b, st):
        pos = self.cmp_lin(op, a, b)
        if pos is not None:
            if all(st.entails(x) for x in pos):
                return True
            neg = self.cmp_lin(self.NEG[op], a, b)
            if neg is not None:
                if all(st.entails(x) for x in neg):
                    return False
                return None
            # op is "==": false when a<b or a>b is entailed
            if st.entails(b - a - Lin.const(1)) or st.entails(a - b - Lin.const(1)):
                return False
            return None
        # "!="
        t = self.decide("==", a, b, st)
        return None if t is None else (not t)

    def assume(self, c, truth, st, fr):
        """states (list) in which condition c has the given truth value; refines st (consumed)"""
        cv = cval(c)
        if cv is not None:
            return [st] if bool(cv) == truth else []
        k = c.get("k")
        if k == "cast" and c.get("ck") in ("IntegralToBoolean", "PointerToBoolean", "NoOp") or (k == "cast" and c.get("ck") == "IntegralCast" and not self._narrowing(c, fr)):
            return self.assume(c["e"], truth, st, fr)
        if k == "un" and c.get("op") == "!":
            return self.assume(c["e"], not truth, st, fr)
        if k == "bin" and c.get("op") == "&":
            m = cval(c["b"]) if cval(c["b"]) is not None else cval(c["a"])
            xe = c["a"] if cval(c["b"]) is not None else c["b"]
            if m is not None and m > 0 and (m & (m - 1)) == 0:
                x = self.evq(xe, st, fr)
                if isinstance(x, Lin) and len(x.t) == 1 and x.c == 0 and list(x.t.values()) == [1]:
                    sym = list(x.t)[0]
                    km, kv = st.env.get(("bits", sym), (0, 0))
                    if km & m:
                        return [st] if bool(kv & m) == truth else []
                    st.env[("bits", sym)] = (km | m, (kv | m) if truth else (kv & ~m))
                    if truth:
                        st.add(x - Lin.const(m))
                    return [st] if st.feasible() else []
        if k == "bin":
            op = c["op"]
            if op in ("&&", "||"):
                conj = (op == "&&") == truth
                if conj:
                    # both operands have the value `truth`
                    out = []
                    for s1 in self.assume(c["a"], truth, st, fr):
                        out.extend(self.assume(c["b"], truth, s1, fr))
                    return out
                # disjunction: a has value / a has not and b has
                out = self.assume(c["a"], truth, st.copy(), fr)
                for s1 in self.assume(c["a"], not truth, st, fr):
                    out.extend(self.assume(c["b"], truth, s1, fr))
                return out
            if op == "=":
                return self.assume_val(c, c["a"], truth, st, fr)
            if op == ",":
                return self.assume(c["b"], truth, st, fr)
            if op in self.NEG:
                a = self.evq(c["a"], st, fr)
                b = self.evq(c["b"], st, fr)
                o = op if truth else self.NEG[op]
                if isinstance(a, (Ptr, ObjPtr)) or isinstance(b, (Ptr, ObjPtr)):
                    return self.assume_ptr_cmp(o, c, a, b, st, fr)
                if isinstance(a, Lin) and isinstance(b, Lin):
                    return self.assume_cmp(o, a, b, st)
                return [st]
        return self.assume_val(c, c, truth, st, fr)

    def refine_products(self, st):
        """m = q * p on record (p >= 1, q >= 0): a product known to be positive is at least p"""
        for k in [k for k in st.env if k[0] == "mul"]:
            m = st.env[k]
            if not isinstance(m, Lin) or ("mulpos", k[1], k[2]) in st.env:
                continue
            if st.entails(m - Lin.const(1)):
                st.env[("mulpos", k[1], k[2])] = Lin.const(1)
                st.add(m - Lin.sym(k[2]))
                st.add(Lin.sym(k[1]) - Lin.const(1))
        # two multiples of the same p that differ, differ by at least p
        ks = [k for k in st.env if k[0] == "mul" and isinstance(st.env[k], Lin)]
        for i, k1 in enumerate(ks):
            for k2 in ks[i + 1:]:
                if k1[2] != k2[2]:
                    continue
                for a_, b_ in ((k1, k2), (k2, k1)):
                    if ("muldiff", a_[1], b_[1]) in st.env:
                        continue
                    d = st.env[a_] - st.env[b_]
                    if st.entails(d - Lin.const(1)):
                        st.env[("muldiff", a_[1], b_[1])] = Lin.const(1)
                        st.add(d - Lin.sym(a_[2]))

    def resolve_wraps(self, st):
        for k in [k for k in st.env if k[0] == "wrapof"]:
            v, m = st.env[k]
            w = Lin.sym(k[1])
            if st.entails(v) and st.entails(Lin.const(m - 1) - v):
                val = v
            elif st.entails(-v - Lin.const(1)) and st.entails(v + Lin.const(m)):
                val = v + Lin.const(m)
            else:
                continue
            del st.env[k]
            st.add(w - val)
            st.add(val - w)
            # the symbol is written out where it is bound: later joins compare the expressions themselves
            sub = {k[1]: val}
            for tab in (st.env, st.cache):
                for kk, x in list(tab.items()):
                    if isinstance(x, Lin) and k[1] in x.t:
                        tab[kk] = x.subst(sub)
                    elif isinstance(x, Ptr) and x.region is not None and k[1] in x.off.t:
                        tab[kk] = Ptr(x.region, x.off.subst(sub), x.maybe_null)

    def assume_cmp(self, op, a, b, st):
        cons = self.cmp_lin(op, a, b)
        if cons is not None:
            for x in cons:
                st.add(x)
            if not st.feasible():
                return []
            if self.track_wraps:
                self.resolve_wraps(st)
            self.refine_products(st)
            return [st]
        # a != b : two half spaces
        s2 = st.copy()
        st.add(b - a - Lin.const(1))
        s2.add(a - b - Lin.const(1))
        return [s for s in (st, s2) if s.feasible()]

    def assume_ptr_cmp(self, op, c, a, b, st, fr):
        if isinstance(a, Ptr) and isinstance(b, Ptr) and a.region is b.region and a.region is not None:
            return self.assume_cmp(op, a.off, b.off, st)
        if isinstance(a, Ptr) and isinstance(b, Ptr) and a.region is not None and b.region is not None and a.region is not b.region \
                and op in ("==", "!=") and "alloc" in (a.region.kind, b.region.kind) and not a.maybe_null and not b.maybe_null:
            return [st] if op == "!=" else []
        if isinstance(a, ObjPtr) and isinstance(b, ObjPtr) and op in ("==", "!="):
            if (a.obj, a.prefix) == (b.obj, b.prefix):
                return [st] if op == "==" else []
            if op == "!=":
                st.env[("distinct", a.obj, b.obj)] = Lin.const(1)
                st.env[("distinct", b.obj, a.obj)] = Lin.const(1)
                return [st]
            # equal pointers to two symbolic objects: same object - nothing is merged (fields of both stay), but the
            # place one of them was read from now holds the other (an unknown member that turned out to be a known node)
            if self.track_fields:
                for x, xe, y in ((a, c["a"], b), (b, c["b"], a)):
                    if isinstance(x.obj, str) and x.obj[:1] == "L" and not (isinstance(y.obj, str) and y.obj[:1] == "L"):
                        loc = self.lval_of_value_expr(xe, st, fr)
                        if loc is not None and not isinstance(loc, MemLoc) and loc[0] == "f":
                            st.env[loc] = ObjPtr(y.obj, y.prefix, False, y.boff)
                            break
            return [st]
        # comparison with the null pointer
        for x, xe, y in ((a, c["a"], b), (b, c["b"], a)):
            if isinstance(y, Ptr) and y.region is None and op in ("==", "!="):
                return self.assume_nullness(xe, x, op == "==", st, fr)
        return [st]

    def assume_nullness(self, e, v, isnull, st, fr):
        if isinstance(v, Ptr) and v.region is None:
            return [st] if isnull else []
        if isinstance(v, (Ptr, ObjPtr)):
            if not v.maybe_null:
                return [] if isnull else [st]
            loc = self.lval_of_value_expr(e, st, fr)
            if isnull:
                nv = NULL
            elif isinstance(v, Ptr):
                nv = Ptr(v.region, v.off, False)
            else:
                nv = ObjPtr(v.obj, v.prefix, False)
            if loc is not None and not isinstance(loc, MemLoc):
                st.env[loc] = nv
            x = e
            while isinstance(x, dict):
                # the value was read as an element of its own before the test: what is remembered for that element (the
                # conversion wrappers around the variable included) is the refined pointer from here on
                if "sid" in x:
                    st.cache[(fr.id, x["sid"])] = nv
                if x.get("k") == "cast" and x.get("ck") in ("LValueToRValue", "NoOp", "BitCast", "PointerToBoolean"):
                    x = x["e"]
                else:
                    break
            return [st]
        if isinstance(v, AddrOf):
            return [] if isnull else [st]
        return [st]

    def lval_of_value_expr(self, e, st, fr):
        """the variable whose value expression e reads (through casts and assignments)"""
        e = strip(e, all_casts=True)
        if e.get("k") == "bin" and e.get("op") == "=":
            return self.lval(e["a"], st, fr)
        if e.get("k") in ("ref", "mem"):
            return self.lval(e, st, fr)
        return None

    def assume_val(self, c, src, truth, st, fr):
        v = self.evq(c, st, fr)
        if isinstance(v, Lin):
            if truth:
                if len(v.t) == 1 and v.c == 0 and list(v.t)[0] in self.sym_nonzero_lo and st.entails(v):
                    st.add(v - Lin.const(self.sym_nonzero_lo[list(v.t)[0]]))     # value set of this variable has a gap above zero
                    return [st] if st.feasible() else []
                if st.entails(v):
                    st.add(v - Lin.const(1))
                    if not st.feasible():
                        return []
                    if self.track_wraps:
                        self.resolve_wraps(st)
                    self.refine_products(st)
                    return [st]
                if st.entails(-v):
                    st.add(-v - Lin.const(1))
                    return [st] if st.feasible() else []
                s2 = st.copy()
                st.add(v - Lin.const(1))
                s2.add(-v - Lin.const(1))
                return [s for s in (st, s2) if s.feasible()]
            st.add(v)
            st.add(-v)
            if not st.feasible():
                return []
            if self.track_wraps:
                self.resolve_wraps(st)
            self.refine_products(st)
            return [st]
        if isinstance(v, (Ptr, ObjPtr, AddrOf)):
            return self.assume_nullness(src, v, not truth, st, fr)
        return [st]

    # ---- calls ---------------------------------------------------------------------------------------------
    def transfer_call(self, e, st, fr):
        """returns list of (state, value)"""
        f = fr.f
        name = callee_name(e)
        args = [self.ev(a, st, fr) for a in e.get("args", [])]
        base = (name or "").split("::")[-1]
        if base in COPY_FUNCS and len(args) >= 3:
            di, si, ni, strict = COPY_FUNCS[base]
            n = args[ni]
            self.check_access(st, fr, e, args[di], n, "write of data")
            self.check_access(st, fr, e, args[si], n, "read of")
            d, s = args[di], args[si]
            if strict and isinstance(d, Ptr) and isinstance(s, Ptr) and d.region is s.region and d.region is not None and isinstance(n, Lin):
                ok = st.entails_eq(n, Lin.const(0)) or st.entails(s.off - d.off - n) or st.entails(d.off - s.off - n)
                self.oblige("OVERLAP", fr, e, ok, "" if ok else "memcpy between overlapping parts of %s: [%r,+%r) and [%r,+%r); path: %s" % (d.region.name, d.off, n, s.off, n, " / ".join(st.trail[-8:])))
            if self.copy_hook is not None:
                self.copy_hook(self, st, fr, e, d, s, n)
            return [(st, args[di])]
        if base in SET_FUNCS and len(args) >= 2:
            di, ni = SET_FUNCS[base]
            self.check_access(st, fr, e, args[di], args[ni], "write of")
            if self.copy_hook is not None:
                self.copy_hook(self, st, fr, e, args[di], None, args[ni])
            return [(st, args[di])]
        if base in READ_FUNCS and len(args) > max(READ_FUNCS[base]):
            pi, ni = READ_FUNCS[base]
            self.check_access(st, fr, e, args[pi], args[ni], "read of")
            return [(st, self.fresh_of_type(st, f, e.get("t")))]
        if base in WRITE_FUNCS and len(args) > max(WRITE_FUNCS[base]):
            pi, ni = WRITE_FUNCS[base]
            self.check_access(st, fr, e, args[pi], args[ni], "write of")
            return [(st, self.fresh_of_type(st, f, e.get("t")))]
        if base == "strlen" and args and isinstance(args[0], Ptr) and args[0].region is not None:
            r = self.fresh(st, "strlen", 0, (1 << 63) - 1)
            st.add(args[0].region.size - args[0].off - Lin.const(1) - r)      # the terminator lies inside the area
            return [(st, r)]
        if base in ("malloc", "realloc", "calloc"):
            sz = args[-1] if base != "calloc" else None
            if base == "realloc" and isinstance(args[0], Ptr) and args[0].region is not None and isinstance(sz, Lin):
                pass
            if not isinstance(sz, Lin):
                sz = self.fresh(st, "size")
            reg = Region(base, sz, "alloc")
            s2 = st.copy()
            st.add(Lin.const((1 << 63) - 1) - sz)      # no object is larger than PTRDIFF_MAX
            return [(st, Ptr(reg, Lin.const(0))), (s2, NULL)]
        if base == "free":
            return [(st, None)]
        # program function: analyse in context
        cands = self.prog.resolve_call(f, e) if e.get("fn") else []
        g = cands[0] if cands else None
        if g is None and e.get("callee") is not None:
            ce = strip(e["callee"], all_casts=True)
            if ce.get("k") == "mem" and ce.get("f") in self.slot_contracts:
                # call through a function pointer member with a stated contract
                self.stats["slot_calls"] = self.stats.get("slot_calls", 0) + 1
                return self.slot_contracts[ce["f"]](self, st, fr, e, args)
        if g is None and self.indirect_hook is not None and e.get("callee") is not None:
            self.indirect_hook(self, st, fr, e, args)
        if g is not None and (g.name in self.post) and fr.depth >= 0 and g is not self.root:
            return self.post[g.name](self, st, fr, e, args)
        if g is not None and (g.name in self.modular or g.qn in self.modular or (self.policy is not None and self.policy(fr, g) == "modular")):
            return self.modular_call(g, e, args, st, fr)
        if g is not None and not g.nocfg and fr.depth < self.max_depth and len(g.blocks) <= 200 and (self.inline_ok is None or self.inline_ok(g)) \
                and g.qn not in fr.qchain():
            this = None
            if e.get("mcall") and e.get("obj") is not None:
                this = self.ev(e["obj"], st, fr)
            self.stats["inlined"] += 1
            return self.run_function(g, args, st, Frame(g, fr.depth + 1, fr, e), this=this)
        # unknown: havoc what the arguments can reach (objects with an invariant are assumed to keep it)
        self.stats["havoc_calls"] += 1
        return self.modular_call(g, e, args, st, fr, known=False)

    def modular_call(self, g, e, args, st, fr, known=True):
        """call of a function that is verified (or assumed) separately: the site owes the byte-range contract and the
        invariant of every object it hands over; afterwards those objects are arbitrary within their invariant"""
        f = fr.f
        name = (g.qn if g is not None else None) or callee_name(e) or "?"
        if g is not None:
            con = self.contracts.get(g.qn) or self.contracts.get(g.name) or {}
            byname = {p["n"]: a for p, a in zip(g.params, args)}
            for pn, spec in con.items():
                if spec[0] == "bytes":
                    n = byname.get(spec[1]) if isinstance(spec[1], str) else Lin.const(spec[1])
                    self.check_access(st, fr, e, byname.get(pn), n, "contract of %s: %s[0..%s) accessed," % (g.name, pn, spec[1]))
        objs = list(args)
        if e.get("mcall") and e.get("obj") is not None:
            objs.append(self.ev(e["obj"], st, fr))
        for i, a in enumerate(objs):
            if isinstance(a, ObjPtr):
                rec = None
                const = False
                # the caller's view of the object (C++ classes name their queue differently than the C structs)
                if i < len(e.get("args", [])):
                    T = f.T(strip(e["args"][i], all_casts=True).get("t"))
                    to = f.T(T.get("to")) if T.get("k") in ("ptr", "ref") else {}
                    rec = to.get("name")
                if g is not None and i < len(g.params):
                    T = g.T(g.params[i]["t"])
                    to = g.T(T.get("to")) if T.get("k") in ("ptr", "ref") else {}
                    rec = rec or to.get("name")
                    const = bool(to.get("const"))
                elif g is not None and i >= len(args):
                    rec = g.d.get("cls")
                    const = bool(g.d.get("const"))
                elif g is None and e.get("callee") is not None:
                    CT = f.T(e["callee"].get("t"))
                    FT = f.T(CT.get("to")) if CT.get("k") == "ptr" else CT
                    ps = FT.get("params") or []
                    if i < len(ps):
                        PT = f.T(ps[i])
                        to = f.T(PT.get("to")) if PT.get("k") in ("ptr", "ref") else {}
                        const = bool(to.get("const"))
                subs = self.inv_objects(rec, a.obj, a.prefix) if rec else []
                for r2, pre in subs:
                    res = self.invariants[r2](self, st, a.obj, pre, False)
                    bad = [t for t, ok in res if not ok]
                    self.oblige("CALLINV", fr, e, not bad, "" if not bad else "%s handed to %s while %s is not shown; path: %s" % (
                        (a.obj + "." + pre).rstrip("."), name, ", ".join(bad), " / ".join(st.trail[-8:])))
                if const:
                    continue
                st.env[("havoc", a.obj, a.prefix)] = Lin.const(1)
                for k in [k for k in st.env if k[0] == "f" and k[1] == a.obj and k[2].startswith(a.prefix)]:
                    del st.env[k]
                if rec:
                    self.make_object(st, f, rec, a.obj, a.prefix, assume=True)
                    if not known and subs:
                        self.assumed.add(name)
            elif isinstance(a, AddrOf):
                st.env.pop(a.loc, None)
        if not known or g is None or g.nocfg:
            for k in [k for k in st.env if k[0] == "g" and k[1] != "errno"]:
                del st.env[k]
        return [(st, self.fresh_of_type(st, f, e.get("t")))]

    # ---- function bodies -------------------------------------------------------------------------------------
    def back_edges(self, f):
        if hasattr(f, "_lin_back"):
            return f._lin_back
        back = set()
        color = {}
        order = []
        stack = [(f.entry, iter(f.blocks[f.entry].succ))]
        color[f.entry] = 1
        while stack:
            b, it = stack[-1]
            adv = False
            for s in it:
                if s is None or s not in f.blocks:
                    continue
                if color.get(s) == 1:
                    back.add((b, s))
                elif s not in color:
                    color[s] = 1
                    stack.append((s, iter(f.blocks[s].succ)))
                    adv = True
                    break
            if not adv:
                color[b] = 2
                order.append(b)
                stack.pop()
        f._lin_back = back
        f._lin_topo = {b: i for i, b in enumerate(reversed(order))}
        # natural loop of each head: blocks that reach a back-edge source without passing the head
        loops = {}
        for (s, h) in back:
            body = loops.setdefault(h, {h})
            stack = [s]
            while stack:
                x = stack.pop()
                if x in body:
                    continue
                body.add(x)
                stack.extend(f.blocks[x].preds)
        f._lin_loops = loops
        f._lin_depth = {b: sum(1 for h in loops if b in loops[h]) for b in f.blocks}
        # innermost loop of each block, and what lies downstream of each loop head (forward edges only)
        f._lin_inner = {}
        for b in f.blocks:
            hs = [h for h in loops if b in loops[h]]
            if hs:
                f._lin_inner[b] = min(hs, key=lambda h: len(loops[h]))
        f._lin_down = {}
        for h in loops:
            seen = {h}
            stack = [h]
            while stack:
                x = stack.pop()
                for y in f.blocks[x].succ:
                    if y is None or y not in f.blocks or (x, y) in back or y in seen:
                        continue
                    seen.add(y)
                    stack.append(y)
            f._lin_down[h] = seen
        return back

    def run_function(self, f, args, st, fr, this=None):
        """analyse f from state st with the given argument values; returns [(state, return value)]"""
        for p, a in zip(f.params, args):
            loc = ("v", fr.id, p["id"])
            if a is None:
                st.env.pop(loc, None)
            else:
                st.env[loc] = a
        if this is not None:
            st.env[("this", fr.id)] = this
        return self.run_body(f, st, fr)

    def run_body(self, f, st0, fr):
        back = self.back_edges(f)
        topo = f._lin_topo
        heads = {t for (s, t) in back}
        loops = f._lin_loops
        depth = f._lin_depth
        pending = {f.entry: [st0]}
        head_state = {}
        head_rounds = {}
        returns = []
        work = [f.entry]
        budget = 4000
        while work and budget > 0:
            budget -= 1
            # blocks inside loops first: a loop is run to its fixpoint before what follows it
            work.sort(key=lambda b: (depth.get(b, 0), -topo.get(b, 0)))
            bid = work[-1]
            # a block of a loop waits for work that is neither in that loop nor downstream of its head: such work may
            # still feed the loop's entry (the head would otherwise be joined once per arriving entry state)
            for _ in range(len(work)):
                h = f._lin_inner.get(bid)
                if h is None:
                    break
                pre = [w for w in work if w != bid and w not in loops[h] and w not in f._lin_down[h]]
                if not pre:
                    break
                bid = min(pre, key=lambda b: topo.get(b, 0))
            work.remove(bid)
            sts = pending.pop(bid, [])
            # exit states of a loop round that was superseded are covered by the later round
            sts = [s for s in sts if not any(k[0] == fr.id and k[1] in loops and bid not in loops[k[1]] and r < head_rounds.get(k[1], 0) - 1 and not (self.peel and r == 0)
                                             for k, r in s.gen.items())]
            if not sts:
                continue
            if bid in heads:
                new = self.join_at_head(f, fr, bid, head_state.get(bid), sts, head_rounds.get(bid, 0))
                if new is None:
                    continue
                head_state[bid] = new
                new.gen[(fr.id, bid)] = head_rounds.get(bid, 0)
                head_rounds[bid] = head_rounds.get(bid, 0) + 1
                sts = [new.copy()]
            elif len(sts) > self.max_states:
                self.stats["joins"] += 1
                sts = [self.weak_join(sts)[0]]
            b = f.blocks[bid]
            for st in sts:
                self.stats["states"] += 1
                if self.state_budget is not None and self.stats["states"] > self.state_budget:
                    self.over_budget = True
                    return []
                cur = [st]
                retd = False
                for el in b.el:
                    nxt = []
                    for s in cur:
                        self.cur = s
                        if el.get("k") == "call":
                            for s2, v in self.transfer_call(el, s, fr):
                                if "sid" in el:
                                    s2.cache[(fr.id, el["sid"])] = v
                                nxt.append(s2)
                        elif el.get("k") == "ret":
                            v = self.ev(el, s, fr, top=True)
                            returns.append((s, v))
                            retd = True
                        else:
                            self.ev(el, s, fr, top=True)
                            if not s.dead:
                                nxt.append(s)
                    cur = nxt
                    if retd:
                        break
                if retd:
                    continue
                succ = [s for s in b.succ]
                term = b.term
                for s in cur:
                    if bid == f.exit or not succ:
                        returns.append((s, None))
                        continue
                    outs = []
                    if term and term.get("cond") is not None and len(succ) == 2 and term["cls"] != "SwitchStmt":
                        cond = term["cond"]
                        cs = strip(cond, all_casts=True)
                        deciding = cond
                        if term["cls"] != "BinaryOperator" and cs.get("k") == "bin" and cs.get("op") in ("&&", "||") and cval(cs) is None:
                            deciding = cs["b"]
                        txt = show(deciding, f)[:40]
                        short = None
                        if deciding is not cond:
                            # arrived over the short-circuit edge?  then the left operand decided and the right one is not evaluated
                            self.noeffect += 1
                            try:
                                ta = self.truth(cs["a"], s, fr)
                            finally:
                                self.noeffect -= 1
                            if cs["op"] == "||" and ta is True:
                                short = 0
                            elif cs["op"] == "&&" and ta is False:
                                short = 1
                        if short is not None:
                            if succ[short] is not None:
                                outs.append((succ[short], s))
                        for si, truth in (() if short is not None else ((0, True), (1, False))):
                            if succ[si] is None:
                                continue
                            base = s.copy() if si == 0 else s
                            for o in self.assume(deciding, truth, base, fr):
                                o.trail = o.trail + (("" if truth else "!") + "(" + txt + ")",)
                                outs.append((succ[si], o))
                    elif term and term.get("cls") == "SwitchStmt" and term.get("cond") is not None:
                        cv = self.ev(term["cond"], s, fr)
                        for t in succ:
                            if t is None:
                                continue
                            o = s.copy()
                            lab = f.blocks[t].label
                            if lab and lab.get("k") == "case" and "lo" in lab and isinstance(cv, Lin):
                                o.add(cv - Lin.const(lab["lo"]))
                                o.add(Lin.const(lab.get("hi", lab["lo"])) - cv)
                                if not o.feasible():
                                    continue
                            outs.append((t, o))
                    else:
                        first = True
                        for t in succ:
                            if t is None:
                                continue
                            outs.append((t, s if first else s.copy()))
                            first = False
                    if self.exit_hook is not None and bid in f._lin_inner:
                        for t, o in outs:
                            for h in loops:
                                if bid in loops[h] and t not in loops[h]:
                                    self.cur = o
                                    self.exit_hook(self, o, fr, h, bid, t)
                    for t, o in outs:
                        if t == f.exit and not f.blocks[t].el:
                            returns.append((o, None))
                            continue
                        pending.setdefault(t, []).append(o)
                        if t not in work:
                            work.append(t)
        if budget <= 0:
            self.events.append(("budget", f.name))
        # drop the callee's frame
        out = []
        for s, v in returns:
            for k in [k for k in s.env if (k[0] == "v" and k[1] == fr.id and fr.depth > 0)]:
                del s.env[k]
            if fr.depth > 0:
                for k in [k for k in s.env if k[0] == "f" and isinstance(k[1], tuple) and k[1][1] == fr.id]:
                    del s.env[k]
                for k in [k for k in s.cache if k[0] == fr.id]:
                    del s.cache[k]
            out.append((s, v))
        self.stats["paths"] += len(out)
        if fr.depth > 0 and len(out) > self.max_returns:
            out = self.merge_returns(out)
        return out

    def merge_returns(self, outs):
        """too many paths out of a callee: join those that return the same kind of value"""
        groups = {}
        for s, v in outs:
            if isinstance(v, Ptr):
                k = ("p", v.region.id if v.region is not None else None)
            elif isinstance(v, ObjPtr):
                k = ("o", v.obj, v.prefix, v.maybe_null)
            elif isinstance(v, Lin):
                k = ("i", -1 if s.entails(-v - Lin.const(1)) else (1 if s.entails(v) else 0), v.key() if v.is_const() else None)
            else:
                k = ("n",)
            groups.setdefault(k, []).append((s, v))
        res = []
        for k, g in groups.items():
            if len(g) == 1:
                res.append(g[0])
                continue
            sts = []
            for s, v in g:
                s = s.copy()
                s.env[("ret",)] = v if isinstance(v, (Lin, Ptr)) else Lin.const(0)
                sts.append(s)
            j, _ = self.weak_join(sts)
            v = j.env.pop(("ret",), None)
            if not isinstance(g[0][1], (Lin, Ptr)):
                v = g[0][1]
            res.append((j, v))
        return res

    # ---- joins -----------------------------------------------------------------------------------------------
    def join_at_head(self, f, fr, bid, old, incoming, rounds):
        """loop head: one state; returns None when the head state already covers what arrives"""
        if old is None and len(incoming) == 1:
            return incoming[0]
        if self.peel and rounds == 1 and old is not None:
            # the entry state was run through the body by itself; the head state proper starts with what comes round
            incoming = [s for s in incoming if not self.covered(old, s)]
            if not incoming:
                return None
            if len(incoming) == 1:
                return incoming[0]
            return self.weak_join(incoming, has_old=False, at_head=True)[0]
        if old is not None:
            incoming = [s for s in incoming if not self.covered(old, s)]
            if not incoming:
                return None
        sts = ([old] if old is not None else []) + incoming
        if rounds > 10:
            # give up on relations: locations that still change become unconstrained
            self.events.append(("loop-top", f.name, bid))
            new, rename = self.weak_join(sts, has_old=old is not None, widen=True, at_head=True, top=True)
            return new
        new, rename = self.weak_join(sts, has_old=old is not None, widen=rounds >= 3, at_head=True)
        return new

    def covered(self, old, s):
        """state s is described by the head state old: there is a value for old's join symbols under which the bindings
        agree and every constraint of old is entailed"""
        sub = {}
        rmap = {}

        def bind(v, w):
            """value v of the head state against value w of s: True when they agree (possibly by choosing join symbols)"""
            if v == w:
                return True
            if len(v.t) == 1 and v.c == 0 and list(v.t.values()) == [1] and list(v.t)[0].startswith("j"):
                h = list(v.t)[0]
                if h in sub and sub[h] != w:
                    return False
                sub[h] = w
                return True
            return s.entails_eq(v.subst(sub), w)

        for k, v in old.env.items():
            if k not in s.env:
                return False
            w = s.env[k]
            if isinstance(v, Ptr) and isinstance(w, Ptr):
                if (v.region is None) != (w.region is None) or (w.maybe_null and not v.maybe_null):
                    return False
                if v.region is None:
                    continue
                if v.region is not w.region:
                    # the head state's area stands for whichever area s has there, consistently
                    if rmap.get(v.region.id, w.region.id) != w.region.id or w.region.id in [x for y, x in rmap.items() if y != v.region.id]:
                        return False
                    rmap[v.region.id] = w.region.id
                    if not bind(v.region.size, w.region.size):
                        return False
                v, w = v.off, w.off
            if isinstance(v, Lin) and isinstance(w, Lin):
                if v == w:
                    continue
                if len(v.t) == 1 and v.c == 0 and list(v.t.values()) == [1] and list(v.t)[0].startswith("j"):
                    h = list(v.t)[0]
                    if h in sub and sub[h] != w:
                        return False
                    sub[h] = w
                    continue
                if not s.entails_eq(v.subst(sub), w):
                    return False
                continue
            if v != w:
                return False
        for kk, c in old.cons.items():
            lin = Lin(dict(kk), c).subst(sub)
            if not s.entails(lin):
                return False
        return True

    @staticmethod
    def _rename_row(kk, rename):
        t = {}
        for s, v in kk:
            s2 = rename.get(s, s)
            t[s2] = t.get(s2, 0) + v
        return tuple(sorted((s, v) for s, v in t.items() if v))

    def same_state(self, old, new, rename):
        if set(old.env) != set(new.env):
            return False
        for k, v in old.env.items():
            w = new.env[k]
            if isinstance(v, Lin) and isinstance(w, Lin):
                if v.subst({a: Lin.sym(b) for a, b in rename.items()}) != w:
                    return False
            elif isinstance(v, Ptr) and isinstance(w, Ptr):
                if v.region is not w.region or v.maybe_null != w.maybe_null or v.off.subst({a: Lin.sym(b) for a, b in rename.items()}) != w.off:
                    return False
            elif v != w:
                return False
        live = self.live_syms(new)
        oc = {}
        for kk, c in old.cons.items():
            r = self._rename_row(kk, rename)
            if all(s in live for s, v in r):
                oc[r] = min(c, oc.get(r, c))
        nc = {kk: c for kk, c in new.cons.items()}
        return oc == nc

    def live_syms(self, st):
        live = set(getattr(self, "entry_syms", ()))
        for v in st.env.values():
            if isinstance(v, Lin):
                live |= v.syms()
            elif isinstance(v, Ptr) and v.region is not None:
                live |= v.off.syms() | v.region.size.syms()
        return live

    def weak_join(self, sts, has_old=False, widen=False, at_head=False, top=False):
        """upper bound of several states: equal bindings are kept, different integer bindings get a fresh join symbol,
        a candidate constraint survives when every state entails it.  Returns (state, rename) where rename maps the
        symbols that stood for a changed location in sts[0] to the new join symbols."""
        self.stats["joins"] += 1
        keys = set(sts[0].env)
        for s in sts[1:]:
            keys &= set(s.env)
        res = State()
        res.joined = True
        res.trail = ("join",)
        res.gen = {k: r for k, r in sts[0].gen.items() if all(s.gen.get(k) == r for s in sts[1:])}
        ext = [s.copy() for s in sts]
        changed = []
        regmap = {}
        claimed = [set() for _ in sts]
        for k in sorted(keys, key=str):
            vals = [s.env[k] for s in sts]
            if all(v == vals[0] for v in vals[1:]):
                res.env[k] = vals[0]
                continue
            if all(isinstance(v, Lin) for v in vals):
                lins = vals
                mk = lambda h: h
            elif all(isinstance(v, Ptr) and v.region is not None for v in vals):
                if all(v.region is vals[0].region for v in vals):
                    reg = vals[0].region
                else:
                    # different areas on different sides (storage replaced by a callee): one area of joined size
                    rk = tuple(v.region.id for v in vals)
                    reg = regmap.get(rk)
                    if reg is None:
                        if any(rid in claimed[i] for i, rid in enumerate(rk)):
                            continue       # an area already stands for another one on some side: no consistent renaming
                        self.nsym += 1
                        hs = Lin.sym("j%d:size" % self.nsym)
                        for sx, v in zip(ext, vals):
                            sx.add(hs - v.region.size)
                            sx.add(v.region.size - hs)
                        reg = Region(vals[0].region.name, hs, vals[0].region.kind)
                        regmap[rk] = reg
                        for i, rid in enumerate(rk):
                            claimed[i].add(rid)
                        changed.append((("size", rk), hs, [v.region.size for v in vals]))
                lins = [v.off for v in vals]
                mn = any(v.maybe_null for v in vals)
                mk = lambda h, reg=reg, mn=mn: Ptr(reg, h, mn)
                if all(x == lins[0] for x in lins[1:]) and lins[0].is_const():
                    res.env[k] = Ptr(reg, lins[0], mn)
                    continue
            else:
                continue      # dropped: unknown after the join
            self.nsym += 1
            h = Lin.sym("j%d:%s" % (self.nsym, k[-1] if not isinstance(k[-1], tuple) else k[-1][-1]))
            for s, v in zip(ext, lins):
                s.add(h - v)
                s.add(v - h)
            res.env[k] = mk(h)
            changed.append((k, h, lins))
        # substitutions  pivot symbol of side i  ->  expression in join symbols
        substs = []
        for i in range(len(sts)):
            m = {}
            used = set()
            for k, h, lins in changed:
                v = lins[i]
                piv = [s for s, c in v.t.items() if c in (1, -1) and s not in used]
                # prefer symbols that are not entry symbols
                piv.sort(key=lambda s: (s in getattr(self, "entry_syms", ()), s))
                if piv:
                    p = piv[0]
                    c = v.t[p]
                    rest = v - Lin({p: c})
                    m[p] = (h - rest) if c == 1 else (rest - h)
                    used.add(p)
            substs.append(m)
        rename = {}
        if has_old:
            for p, ex in substs[0].items():
                if len(ex.t) == 1 and ex.c == 0 and list(ex.t.values()) == [1]:
                    rename[p] = list(ex.t)[0]
        cands = set()

        def cand(lin):
            t, c = _norm(dict(lin.t), lin.c)
            if not t:
                return
            cands.add((tuple(sorted(t.items())), c))

        sides = [0] if (widen and has_old) else range(len(sts))
        if top:
            sides = []
        for i in sides:
            m = substs[i]
            for kk, c in ext[i].cons.items():
                lin = Lin(dict(kk), c)
                cand(lin)
                if m and any(s in m for s, v in kk):
                    l2 = lin
                    for _ in range(len(m) + 1):
                        if not any(s in m for s in l2.t):
                            break
                        l2 = l2.subst(m)
                    cand(l2)
        if not (widen and has_old):
            for i in range(len(changed)):
                ki, hi, vi = changed[i]
                for v in vi:
                    cand(hi - v)
                    cand(v - hi)
                for j in range(i + 1, len(changed)):
                    kj, hj, vj = changed[j]
                    sums = [a + b for a, b in zip(vi, vj)]
                    if all(x == sums[0] for x in sums[1:]):
                        cand(hi + hj - sums[0])
                        cand(sums[0] - hi - hj)
                    difs = [a - b for a, b in zip(vi, vj)]
                    if all(x == difs[0] for x in difs[1:]):
                        cand(hi - hj - difs[0])
                        cand(difs[0] - hi + hj)
        if not (widen and has_old) and changed and (at_head or len(sts) <= 3):
            # what distinguishes a side (its branch conditions), shifted along each changed location:  C +- (h - v) >= 0
            common = set(sts[0].cons)
            for s in sts[1:]:
                common &= set(s.cons)
            for i in range(len(sts)):
                for kk, c in sts[i].cons.items():
                    if kk in common and sts[0].cons.get(kk) == c or len(kk) > 4:
                        continue
                    lin = Lin(dict(kk), c)
                    for k, h, lins in changed:
                        d = h - lins[i]
                        cand(lin + d)
                        cand(lin - d)
        if not (widen and has_old) and 1 < len(changed) <= 8:
            # affine relations  sum a_k h_k = const  that hold on every side (Karr): a in the null space of the value differences
            for a in self._affine_relations([lins for k, h, lins in changed]):
                lhs = Lin.const(0)
                rhs = Lin.const(0)
                for ak, (k, h, lins) in zip(a, changed):
                    lhs = lhs + h.scale(ak)
                    rhs = rhs + lins[0].scale(ak)
                cand(lhs - rhs)
                cand(rhs - lhs)
            # sums of two or three changed locations against the same sum on each side
            import itertools
            idx = range(len(changed))
            for r in (2, 3):
                if len(changed) > 6 and r == 3:
                    break
                for combo in itertools.combinations(idx, r):
                    hs = Lin.const(0)
                    for i in combo:
                        hs = hs + changed[i][1]
                    for sidx in range(len(sts)):
                        sv = Lin.const(0)
                        for i in combo:
                            sv = sv + changed[i][2][sidx]
                        cand(sv - hs)
                        cand(hs - sv)
        live = self.live_syms(res) if at_head else None
        jsyms = set()
        for k, h, lins in changed:
            jsyms |= h.syms()
        for kk, c in sorted(cands, key=lambda x: (x[0], x[1])):
            if live is not None and not all(s in live for s, v in kk):
                continue
            if kk in res.cons and res.cons[kk] <= c:
                continue        # a stronger bound of this row is in already (rows are tried strongest first)
            # rows that are literally there (same row, at least as strong) need no elimination
            need = [s for s in ext if not (kk in s.cons and s.cons[kk] <= c)]
            if need:
                if not any(sy in jsyms for sy, v in kk):
                    continue        # facts about older symbols only: kept when every side states them (cheap and almost always enough)
                lin = Lin(dict(kk), c)
                if not all(s.entails(lin) for s in need):
                    continue
            res.cons[kk] = c if kk not in res.cons else min(res.cons[kk], c)
        if False and at_head and len(res.cons) > 12:     # tried: rows implied by others that the next round drops are lost
            # drop rows implied by the rest (the widest rows first): keeps later entailment checks small
            es = getattr(self, "entry_syms", ())
            for kk in sorted(res.cons, key=lambda k: (-len(k), k)):
                if len(kk) <= 1 or all(s in es for s, v in kk):
                    continue        # bounds and facts about the inputs stay: later rounds drop rows, these must not depend on them
                c = res.cons[kk]
                others = [(dict(k2), c2) for k2, c2 in res.cons.items() if k2 != kk]
                q = -Lin(dict(kk), c) - Lin.const(1)
                if infeasible(others + [(dict(q.t), q.c)]):
                    del res.cons[kk]
        lost = set()
        for sx in sts:
            lost |= sx.lost
        for k, h, lins in changed:
            lost |= h.syms()
            for v in lins:
                lost |= v.syms()
        for sx in ext:
            for kk, c in sx.cons.items():
                if not (kk in res.cons and res.cons[kk] <= c):
                    lost |= {sy for sy, v in kk}
        # locations some side knew and the result does not
        def syms_of(v):
            if isinstance(v, Lin):
                return set(v.syms())
            if isinstance(v, Ptr) and v.region is not None:
                return set(v.off.syms()) | set(v.region.size.syms())
            if isinstance(v, (tuple, list)):
                out = set()
                for x in v:
                    out |= syms_of(x)
                return out
            return set()
        for sx in sts:
            for k, v in sx.env.items():
                if k not in res.env or (res.env[k] != v and not isinstance(v, (Lin, Ptr))):
                    lost |= syms_of(v)
                    if k[0] in ("wrapof", "bits", "mul", "mulpos", "muldiff", "div", "divs"):
                        # facts recorded about a symbol (what a wrapped value stands for, known bits, products)
                        lost |= {x for x in k[1:] if isinstance(x, str)}
                        for x in k[1:]:
                            if isinstance(x, tuple):
                                lost |= {y[0] for y in x if isinstance(y, tuple) and y and isinstance(y[0], str)}
        res.lost = frozenset(lost)
        if DEBUG:
            print("JOIN widen=%s has_old=%s sides=%d" % (widen, has_old, len(sts)))
            for k, h, lins in changed:
                print("   ", k, h, lins)
            for kk, c in res.cons.items():
                print("      ", Lin(dict(kk), c), ">= 0")
        return res, rename

    @staticmethod
    def _affine_relations(cols):
        """cols[k][s] = value (Lin) of location k on side s.  Integer vectors a with  sum_k a_k (v_k^s - v_k^0) == 0
        (as an identity in the symbols) for every side s"""
        from fractions import Fraction
        n = len(cols)
        rowsd = []
        for s in range(1, len(cols[0])):
            keys = set()
            ds = []
            for k in range(n):
                d = cols[k][s] - cols[k][0]
                ds.append(d)
                keys |= set(d.t)
            for sym in list(keys) + [None]:
                rowsd.append([Fraction(d.t.get(sym, 0) if sym is not None else d.c) for d in ds])
        # gaussian elimination -> null space
        m = [r for r in rowsd if any(r)]
        piv = []
        r = 0
        for c in range(n):
            pr = None
            for i in range(r, len(m)):
                if m[i][c] != 0:
                    pr = i
                    break
            if pr is None:
                continue
            m[r], m[pr] = m[pr], m[r]
            pv = m[r][c]
            m[r] = [x / pv for x in m[r]]
            for i in range(len(m)):
                if i != r and m[i][c] != 0:
                    fct = m[i][c]
                    m[i] = [x - fct * y for x, y in zip(m[i], m[r])]
            piv.append(c)
            r += 1
            if r == len(m):
                break
        free = [c for c in range(n) if c not in piv]
        out = []
        for fc in free:
            vec = [Fraction(0)] * n
            vec[fc] = Fraction(1)
            for i, pc in enumerate(piv):
                vec[pc] = -m[i][fc]
            den = 1
            for x in vec:
                den = den * x.denominator // gcd(den, x.denominator)
            iv = [int(x * den) for x in vec]
            if sum(1 for x in iv if x) >= 2 and max(abs(x) for x in iv) < (1 << 40):
                out.append(iv)
        return out

    # ---- roots -----------------------------------------------------------------------------------------------
    def analyse_root(self, f):
        self.root = f
        st, fr = self.entry_state(f)
        self.entry_syms = set()
        for kk in st.cons:
            for s, v in kk:
                self.entry_syms.add(s)
        entry = st.copy()
        if getattr(self, "pre_run", None):
            self.pre_run(self, st, fr)
        outs = self.run_body(f, st, fr)
        return entry, fr, outs
