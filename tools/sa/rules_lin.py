"""LINBOUNDS (C13): every access into the queue storage stays inside it and the queue's data invariant is inductive.

Each function of the queue files is analysed as an entry point by the LIN engine (lin.py) from the most general state
that satisfies the data invariant

    INV(q):  q.len <= q.max,  q.off <= q.max,  q.base points to the start of a storage area of q.max bytes

with symbolic parameters.  Obligations:

  ACCESS    each memcpy/memmove/memset/indexed store whose pointer is rooted in the storage area, in a caller buffer
            with a length contract, in a local array or in a fresh allocation stays inside that region
  OVERLAP   memcpy (not memmove) inside one region copies between disjoint ranges
  INV       on every return of an entry point INV holds again for each queue it was handed
  REFUSE    on every error return (negative status / null result) of an entry point the queue fields are what they were

Callees defined in the program are analysed in the caller's context (so a bounds proof of mpt_queue_get covers the
mpt_queue_crop / mpt_queue_data paths it takes); mpt_memrev / mpt_memswap are verified once under their byte-range
contract and call sites owe that contract.

A failed obligation is a *violation* when the state it failed in is exact (no loop join on its path): the report then
names a path condition under which the linear constraints admit an out-of-range access.  Failures behind a loop join
are counted as undecided (listed in the evidence), never as violations.
"""
from .lin import LinAnalysis, Lin, Ptr, ObjPtr, Region, State, Frame, FM_STATS
from .core import Result, Broken, norm
from .facts import show, strip, callee_name

QUEUE_RECORDS = ("mpt_queue", "mpt::queue")

# byte-range contracts of entry points: parameter -> ("bytes", length parameter, may be null)
CONTRACTS = {
    "mpt_qpop": {"data": ("bytes", "len", True)},
    "mpt_qshift": {"data": ("bytes", "len", True)},
    "mpt_qpush": {"data": ("bytes", "len", True)},
    "mpt_qunshift": {"data": ("bytes", "len", True)},
    "mpt_queue_get": {"data": ("bytes", "len", True)},
    "mpt_queue_set": {"data": ("bytes", "len", True)},
    "mpt_memrev": {"data": ("bytes", "len", True)},
    "mpt_memswap": {"from": ("bytes", "len", True), "to": ("bytes", "len", True)},
    "mpt::io::queue::push": {"data": ("bytes", "len", True)},
    "mpt::io::queue::pop": {"data": ("bytes", "len", True)},
    "mpt::io::queue::shift": {"data": ("bytes", "len", True)},
    "mpt::io::queue::unshift": {"data": ("bytes", "len", True)},
}
MODULAR = {"mpt_memrev", "mpt_memswap"}


def queue_inv(an, st, obj, prefix, assume):
    ln = st.env.get(("f", obj, prefix + "len"))
    mx = st.env.get(("f", obj, prefix + "max"))
    off = st.env.get(("f", obj, prefix + "off"))
    if assume:
        reg = Region("storage(%s%s)" % (obj, prefix.rstrip(".")), mx, "storage")
        st.env[("f", obj, prefix + "base")] = Ptr(reg, Lin.const(0))
        st.add(mx - ln)
        st.add(mx - off)
        st.add(Lin.const((1 << 63) - 1) - mx)       # the storage is one object: at most PTRDIFF_MAX bytes
        return None
    res = []
    base = st.env.get(("f", obj, prefix + "base"))
    if not (isinstance(ln, Lin) and isinstance(mx, Lin) and isinstance(off, Lin)):
        return [("queue fields known at exit", False)]
    res.append(("len <= max", st.entails(mx - ln)))
    res.append(("off <= max", st.entails(mx - off)))
    if isinstance(base, Ptr) and base.region is not None:
        res.append(("base is the start of the storage", st.entails_eq(base.off, Lin.const(0))))
        res.append(("max <= size of the storage", st.entails(base.region.size - mx)))
    elif isinstance(base, Ptr):
        res.append(("null storage has max == 0", st.entails_eq(mx, Lin.const(0))))
    else:
        res.append(("base known at exit", False))
    return res


# which logical bytes of the content an entry point copies out of / into the storage:
#   (direction, queue parameter, data parameter, length parameter, first logical index)
# the first index is an expression over the *current* queue fields and the parameters at the time of the copy
SPECS = {
    "mpt_qpop": ("read", "queue", "data", "len", lambda q, p: q["len"] - p["len"]),
    "mpt_qshift": ("read", "queue", "data", "len", lambda q, p: Lin.const(0)),
    "mpt_queue_get": ("read", "queue", "data", "len", lambda q, p: p["pos"]),
    "mpt_queue_set": ("write", "queue", "data", "len", lambda q, p: p["pos"]),
    "mpt_qpush": ("write", "queue", "data", "len", lambda q, p: q["len"] - p["len"]),
    "mpt_qunshift": ("write", "queue", "data", "len", lambda q, p: Lin.const(0)),
    # in-place removal of [pos, pos+len): every byte moved inside the storage comes from `len` logical positions further on
    "mpt_queue_crop": ("move", "queue", None, "len", lambda q, p: p["pos"]),
}


# change of the stored length by a successful call, in units of the length parameter
LEN_EFFECT = {"mpt_qpop": ("queue", "len", -1), "mpt_qshift": ("queue", "len", -1), "mpt_qpush": ("queue", "len", 1), "mpt_qunshift": ("queue", "len", 1),
              "mpt_queue_get": ("queue", "len", 0), "mpt_queue_crop": ("queue", "len", -1), "mpt_qpre": ("queue", "len", 1), "mpt_qpost": ("queue", "len", 1)}


def content_hook(f, fr0, spec, entry):
    """obligation CONTENT for each copy between the storage and the caller's buffer (see run_linbounds)"""
    direction, qn, dn, ln, start = spec
    pid = {p["n"]: p["id"] for p in f.params}
    obj = "P." + qn
    COPIED = ("copied", obj)

    def hook(an, st, fr, e, dst, src, n):
        if not isinstance(n, Lin):
            return
        q = {k: st.env.get(("f", obj, k)) for k in ("len", "max", "off")}
        par = {k: entry.env.get(("v", fr0.id, i)) for k, i in pid.items()}
        if not all(isinstance(v, Lin) for v in q.values()) or not isinstance(par.get(ln), Lin):
            return
        stor = None
        other = None
        for a, b, way in ((src, dst, "read"), (dst, src, "write")):
            if isinstance(a, Ptr) and a.region is not None and a.region.kind == "storage":
                stor, other, w = a, b, way
                break
        if direction == "move":
            if not (isinstance(src, Ptr) and isinstance(dst, Ptr) and src.region is not None and src.region is dst.region and src.region.kind == "storage"):
                return
            if st.entails_eq(n, Lin.const(0)):
                return

            def logical(p):
                if st.entails(p.off - q["off"]):
                    return p.off - q["off"]
                if st.entails(q["off"] - p.off - n):
                    return p.off + q["max"] - q["off"]
                return None
            ls, ld = logical(src), logical(dst)
            pth = " / ".join(st.trail[-8:])
            if ls is None or ld is None:
                an.oblige("CONTENT", fr, e, False, "moved piece (storage offsets %r -> %r, length %r) is in neither segment; path: %s" % (src.off, dst.off, n, pth))
            else:
                ok = st.entails_eq(ls, ld + par[ln]) and st.entails(ld - start(q, par))
                an.oblige("CONTENT", fr, e, ok, "" if ok else "bytes at logical index %r.. are moved to logical index %r.., removing %r bytes at %r needs a distance of exactly that length; path: %s" % (ls, ld, par[ln], start(q, par), pth))
            st.env[COPIED] = st.env.get(COPIED, Lin.const(0)) + n
            return
        if stor is None or (isinstance(other, Ptr) and other.region is not None and other.region.kind == "storage"):
            return          # not a transfer between content and caller (moves inside the storage are not judged here)
        if st.entails_eq(n, Lin.const(0)):
            return
        done = st.env.get(COPIED, Lin.const(0))
        if isinstance(other, Ptr) and other.region is not None:
            d = other.off
        else:
            d = done        # zero fill / unknown partner: continues where the previous piece ended
        first = start(q, par)
        pth = " / ".join(st.trail[-8:])
        ok = True
        why = ""
        if w != direction:
            ok, why = False, "copies %s the storage, the operation is a %s" % ("out of" if w == "read" else "into", direction)
        elif st.entails(stor.off - q["off"]):
            logical = stor.off - q["off"]
            if not st.entails_eq(logical, first + d):
                ok, why = False, "bytes at logical index %r.. go with buffer offset %r, expected logical index %r" % (logical, d, first + d)
        elif st.entails(q["off"] - stor.off - n):
            logical = stor.off + q["max"] - q["off"]
            if not st.entails_eq(logical, first + d):
                ok, why = False, "bytes at logical index %r.. (wrapped part) go with buffer offset %r, expected logical index %r" % (logical, d, first + d)
        else:
            ok, why = False, "piece at storage offset %r, length %r is in neither segment" % (stor.off, n)
        an.oblige("CONTENT", fr, e, ok, "" if ok else "%s; path: %s" % (why, pth))
        st.env[COPIED] = done + n
    return hook, COPIED, par_of(pid, ln, dn)


def par_of(pid, ln, dn):
    return (pid.get(ln), pid.get(dn))


def queue_objects(an, f, st, fr):
    """(object, prefix, text) of every queue an entry point was handed"""
    out = []
    prog = an.prog

    def scan(rec, obj, prefix, text):
        if rec in QUEUE_RECORDS:
            out.append((obj, prefix, text))
            return
        r = prog.records.get(rec)
        if not r:
            return
        for b in r.get("bases") or []:
            scan(b.get("name"), obj, prefix, text)
        for fl in r["fields"]:
            T = r["unit"].types[fl["t"]] if fl["t"] is not None and fl["t"] >= 0 else {}
            if T.get("k") == "record":
                scan(T.get("name"), obj, prefix + fl["n"] + ".", text + "." + fl["n"])
    for p in f.params:
        T = f.T(p["t"])
        if T.get("k") == "ptr":
            to = f.T(T.get("to"))
            if to.get("k") == "record" and isinstance(st.env.get(("v", fr.id, p["id"])), ObjPtr):
                scan(to.get("name"), "P." + p["n"], "", p["n"])
    if f.d.get("method") and f.d.get("cls"):
        scan(f.d["cls"], "P.this", "", "this")
    return out


def callback_hook(an, st, fr, e, args):
    """CALLBACK: an address handed to a caller-supplied function (a compare or visit callback) points at storage the callee
    may read: at least one byte of the region it was computed from"""
    for a in args:
        if isinstance(a, Ptr) and a.region is not None and a.region.kind != "contract-opaque":
            an.check_access(st, fr, e, a, Lin.const(1), "address handed to a callback")


def span_hook(an, st, fr, e, args):
    """VIEW: a span / view object built from an address in the storage and a count covers bytes of the storage only"""
    T = fr.f.T(e.get("t"))
    if "span" not in (T.get("name") or T.get("s") or ""):
        return
    if len(args) == 2 and isinstance(args[0], Ptr) and args[0].region is not None and isinstance(args[1], Lin):
        an.check_access(st, fr, e, args[0], args[1], "view handed to the caller")


def run_linbounds(prog, ctx=None):
    res = Result("LINBOUNDS")
    files = list(ctx.get("files", [])) if ctx else []
    roots = entry_points(prog, files)
    if len(roots) < 15:
        raise Broken("LINBOUNDS: only %d entry points in the queue files" % len(roots))
    agg = {}          # key -> [ok, func, line, detail, decided]
    stats = {"roots": 0, "states": 0, "paths": 0, "inlined": 0, "access_checks": 0, "undecided": 0}
    undecided = []
    assumed = set()
    for f in sorted(roots, key=lambda f: (f.file, f.line)):
        an = LinAnalysis(prog, invariants={r: queue_inv for r in QUEUE_RECORDS}, contracts=CONTRACTS)
        an.modular = set(MODULAR) - {f.name}
        an.max_returns = 64
        cxx = f.file.endswith(".cpp")
        fileset = set(files)
        # C entry points: callees from the queue files are analysed in context; everything else (and every callee of the
        # C++ wrappers, which only forward) is used through its contract: INV in, INV out
        an.policy = (lambda fr, g, cxx=cxx: "modular" if (cxx and g.file.endswith(".c")) or g.file not in fileset else "inline")
        an.indirect_hook = callback_hook
        an.view_hook = span_hook
        spec = SPECS.get(f.name)
        copied_key = None
        if spec:
            an.pre_run = lambda an2, st, fr, f=f, spec=spec: setattr(an2, "copy_hook", content_hook(f, fr, spec, st.copy())[0])
        entry, fr, outs = an.analyse_root(f)
        stats["roots"] += 1
        if spec:
            # COVER: on every successful return with a buffer the pieces add up to the requested length
            pid = {p["n"]: p["id"] for p in f.params}
            okc, detc = True, ""
            nsucc = 0
            for st, v in outs:
                if isinstance(v, Lin) and st.entails(-v - Lin.const(1)):
                    continue
                if isinstance(v, Ptr) and v.region is None and f.T(f.ret).get("k") == "ptr":
                    continue
                if spec[0] == "move":
                    nsucc += 1
                    posv = entry.env.get(("v", fr.id, pid["pos"]))
                    if isinstance(posv, Lin) and st.entails_eq(posv, Lin.const(0)):
                        continue         # removal at the front moves nothing, it advances the offset
                    want = entry.env.get(("f", "P." + spec[1], "len")) - posv - entry.env.get(("v", fr.id, pid[spec[3]]))
                    got = st.env.get(("copied", "P." + spec[1]), Lin.const(0))
                    if st.joined:
                        continue
                    if not st.entails_eq(got, want):
                        okc = False
                        detc = "%r bytes moved, %r follow the removed range, on path %s" % (got, want, " / ".join(st.trail[-8:]))
                    continue
                dv = st.env.get(("v", fr.id, pid[spec[2]]))
                if not (isinstance(dv, Ptr) and dv.region is not None and not dv.maybe_null) and spec[0] == "read":
                    continue
                nsucc += 1
                want = entry.env.get(("v", fr.id, pid[spec[3]]))
                got = st.env.get(("copied", "P." + spec[1]), Lin.const(0))
                if st.joined:
                    continue
                if not (isinstance(want, Lin) and st.entails_eq(got, want)):
                    okc = False
                    detc = "%r bytes transferred, %r requested, on path %s" % (got, want, " / ".join(st.trail[-8:]))
            agg["LIN:%s:COVER" % f.name] = [okc, f, f.line, detc, True]
        # LENSPEC: a successful call changes the stored length by exactly what it took or added
        eff = LEN_EFFECT.get(f.name)
        if eff is not None:
            qn_, ln_, mult = eff
            pid2 = {p["n"]: p["id"] for p in f.params}
            okl, detl, nl = True, "", 0
            l0 = entry.env.get(("f", "P." + qn_, "len"))
            n0 = entry.env.get(("v", fr.id, pid2.get(ln_)))
            for st, v in outs:
                if isinstance(v, Lin) and st.entails(-v - Lin.const(1)):
                    continue
                if isinstance(v, Ptr) and v.region is None and f.T(f.ret).get("k") == "ptr":
                    continue
                if isinstance(v, Ptr) and v.maybe_null:
                    continue
                l1 = st.env.get(("f", "P." + qn_, "len"))
                if not (isinstance(l0, Lin) and isinstance(n0, Lin) and isinstance(l1, Lin)) or st.joined:
                    continue
                nl += 1
                if not st.entails_eq(l1, l0 + n0.scale(mult)):
                    okl = False
                    detl = "the call succeeds with len = %r; a call that %s %r bytes leaves %r; path %s" % (l1, "removes" if mult < 0 else ("adds" if mult > 0 else "only reads"), n0, l0 + n0.scale(mult), " / ".join(st.trail[-8:]))
            if nl:
                agg["LIN:%s:LENSPEC" % f.name] = [okl, f, f.line, detl, True]
        for k in ("states", "paths", "inlined"):
            stats[k] += an.stats.get(k, 0)
        for o in an.obls:
            stats["access_checks"] += 1
            key = "LIN:%s:%s:%s" % (o.func.name, o.kind, norm(o.text)[:80])
            exact = o.exact
            cur = agg.get(key)
            if o.ok:
                if cur is None:
                    agg[key] = [True, o.func, o.line, "", True]
                continue
            detail = "%s (entry point %s, call chain %s)" % (o.detail, f.name, " > ".join(o.chain))
            if not exact:
                undecided.append((key, detail))
                if cur is None:
                    agg[key] = [True, o.func, o.line, "", False]
                else:
                    cur[4] = False
                continue
            if cur is None or cur[0]:
                agg[key] = [False, o.func, o.line, detail, True]
        # exit obligations
        qs = queue_objects(an, f, entry, fr)
        for obj, prefix, text in qs:
            inv_ok, inv_detail = True, ""
            ref_ok, ref_detail = True, ""
            nerr = 0
            for st, v in outs:
                joined = st.joined
                r = queue_inv(an, st, obj, prefix, False)
                bad = [t for t, ok in r if not ok]
                if bad and not joined:
                    inv_ok = False
                    inv_detail = "%s not shown at return on path %s" % (", ".join(bad), " / ".join(st.trail[-8:]))
                elif bad:
                    undecided.append(("LIN:%s:INV:%s" % (f.name, text), ", ".join(bad)))
                # refusal: error status / null result leaves the fields alone
                iserr = False
                if isinstance(v, Lin) and st.entails(-v - Lin.const(1)):
                    iserr = True
                elif isinstance(v, Ptr) and v.region is None and f.T(f.ret).get("k") == "ptr" and ("g", "errno") in st.env:
                    iserr = True       # null result with errno set on the way
                if iserr and not any(k[0] == "havoc" and k[1] == obj for k in st.env):
                    nerr += 1
                    for fld in ("len", "max", "off"):
                        a = st.env.get(("f", obj, prefix + fld))
                        b = entry.env.get(("f", obj, prefix + fld))
                        if not (isinstance(a, Lin) and isinstance(b, Lin) and st.entails_eq(a, b)) and not joined:
                            ref_ok = False
                            ref_detail = "%s.%s may differ from its value at entry when the call is refused (path %s)" % (text, fld, " / ".join(st.trail[-8:]))
            key = "LIN:%s:INV:%s" % (f.name, text)
            agg[key] = [inv_ok, f, f.line, inv_detail, True]
            if nerr:
                key = "LIN:%s:REFUSE:%s" % (f.name, text)
                agg[key] = [ref_ok, f, f.line, ref_detail, True]
        assumed.update(an.assumed)
    stats["undecided"] = len({k for k, d in undecided})
    for key in sorted(agg):
        ok, fn, line, detail, decided = agg[key]
        res.ob(key, ok, fn, line, detail)
    for k, v in stats.items():
        res.count(k, v)
    res.notes.append({"undecided_behind_loop_joins": sorted({k for k, d in undecided})[:40], "entailment_calls": FM_STATS.get("calls", 0), "simplex_fallbacks": FM_STATS.get("lp", 0),
                      "callees_assumed_to_keep_INV": sorted(assumed)})
    return res


# =====================================================================================================================
# LINBUF (C04, C05): typed buffers — payload bounds, used <= size, allocation / detach contracts
# =====================================================================================================================
BUFFER_RECORDS = ("mpt_buffer", "mpt::buffer")
PTRDIFF_MAX = (1 << 63) - 1


def buffer_inv(an, st, obj, prefix, assume):
    used = st.env.get(("f", obj, prefix + "_used"))
    size = st.env.get(("f", obj, prefix + "_size"))
    if assume:
        if obj is None:
            return None
        reg = Region("payload(%s%s)" % (obj, prefix.rstrip(".")), size, "storage")
        st.env[("payload", obj, prefix)] = reg
        st.env[("powner", reg.id)] = (obj, prefix)
        st.env[("used0", obj, prefix)] = used        # length when the object came into view (GAPFILL)
        st.add(size - used)
        st.add(Lin.const(PTRDIFF_MAX) - size)
        return None
    if not (isinstance(used, Lin) and isinstance(size, Lin)):
        return [("buffer fields known", False)]
    res = [("_used <= _size", st.entails(size - used))]
    reg = an.payload_of(st, obj, prefix)
    if reg is None:
        res.append(("payload area known", False))
    else:
        res.append(("_size <= bytes that follow the header", st.entails(reg.size - size)))
    return res


SLICE_RECORDS = ("mpt_slice", "mpt::slice")


def slice_inv(an, st, obj, prefix, assume):
    """offset and length of a slice are sizes of parts of one object: neither exceeds PTRDIFF_MAX (their sum cannot wrap)"""
    off = st.env.get(("f", obj, prefix + "_off"))
    ln = st.env.get(("f", obj, prefix + "_len"))
    if assume:
        if obj is None:
            return None
        if isinstance(off, Lin):
            st.add(Lin.const(PTRDIFF_MAX) - off)
        if isinstance(ln, Lin):
            st.add(Lin.const(PTRDIFF_MAX) - ln)
        return None
    if not (isinstance(off, Lin) and isinstance(ln, Lin)):
        return [("slice fields known", False)]
    return [("_off <= PTRDIFF_MAX", st.entails(Lin.const(PTRDIFF_MAX) - off)), ("_len <= PTRDIFF_MAX", st.entails(Lin.const(PTRDIFF_MAX) - ln))]


def _new_buffer(an, st, fr, need, used_zero, rec="mpt_buffer", old_used=None):
    """a fresh buffer object as the allocation / detach contract promises it"""
    s_null = st.copy()
    ptr = an.lazy_object(st, fr.f, rec, maybe_null=False, kind="N")
    size = st.env.get(("f", ptr.obj, "_size"))
    if isinstance(need, Lin) and isinstance(size, Lin):
        st.add(size - need)
    if isinstance(old_used, Lin):
        nu = st.env.get(("f", ptr.obj, "_used"))
        if isinstance(need, Lin) and st.entails(need - old_used):
            # the request covers the content: it is kept in full
            st.env[("f", ptr.obj, "_used")] = old_used
            st.env[("used0", ptr.obj, "")] = old_used
        elif isinstance(nu, Lin):
            st.add(old_used - nu)
    if used_zero:
        st.env[("f", ptr.obj, "_used")] = Lin.const(0)
        st.env[("used0", ptr.obj, "")] = Lin.const(0)
    return [(st, ptr), (s_null, Ptr(None, Lin.const(0)))]


def post_buffer_alloc(an, st, fr, e, args):
    return _new_buffer(an, st, fr, args[0] if args else None, True)


def slot_detach(an, st, fr, e, args):
    # b->_vptr->detach(b, len): the site owes INV(b); the result is null or a buffer with _size >= len
    if args and isinstance(args[0], ObjPtr):
        a = args[0]
        for r2, pre in an.inv_objects(an.objrec.get((a.obj, a.prefix)), a.obj, a.prefix):
            res = an.invariants[r2](an, st, a.obj, pre, False)
            bad = [t for t, ok in res if not ok]
            an.oblige("CALLINV", fr, e, not bad, "" if not bad else "buffer handed to detach() while %s is not shown; path: %s" % (", ".join(bad), " / ".join(st.trail[-8:])))
    old_used = None
    if args and isinstance(args[0], ObjPtr):
        old_used = st.env.get(("f", args[0].obj, args[0].prefix + "_used"))
        # DETACHKEEP: a private copy made in order to write into the content keeps all of it: the request covers _used
        if fr.f.name not in DETACH_MAY_TRUNCATE and isinstance(old_used, Lin) and len(args) > 1 and isinstance(args[1], Lin):
            ok = st.entails(args[1] - old_used)
            an.oblige("DETACHKEEP", fr, e, ok, "" if ok else "detach() is asked for %r bytes while the buffer holds %r: the private copy loses the content behind the request; path: %s" % (
                args[1], old_used, " / ".join(st.trail[-8:])))
    return _new_buffer(an, st, fr, args[1] if len(args) > 1 else None, False, old_used=old_used)


def slot_pure(an, st, fr, e, args):
    # get_flags() / addref(): no effect on the buffer's length fields
    return [(st, an.fresh_of_type(st, fr.f, e.get("t")))]


def check_post_buffer(an, f, fr, entry, outs, need_param, used_zero, agg):
    """exit obligation of an allocation / detach implementation: what call sites rely on"""
    pid = {p["n"]: p["id"] for p in f.params}
    ok, det = True, ""
    n = 0
    for st, v in outs:
        if not isinstance(v, ObjPtr):
            if isinstance(v, Ptr) and v.region is None:
                continue
            if st.joined:
                continue
            ok, det = False, "returns a pointer that is not a known buffer object on path %s" % " / ".join(st.trail[-8:])
            continue
        n += 1
        r = buffer_inv(an, st, v.obj, v.prefix, False)
        bad = [t for t, o in r if not o]
        need = entry.env.get(("v", fr.id, pid.get(need_param)))
        size = st.env.get(("f", v.obj, v.prefix + "_size"))
        if isinstance(need, Lin) and not (isinstance(size, Lin) and st.entails(size - need)):
            bad.append("_size >= requested %s" % need_param)
        if used_zero and not (isinstance(st.env.get(("f", v.obj, v.prefix + "_used")), Lin) and st.entails_eq(st.env[("f", v.obj, v.prefix + "_used")], Lin.const(0))):
            bad.append("_used == 0")
        if not used_zero:
            # detach: the content length is kept when the request covers it, never grows otherwise
            u_old = None
            p0 = entry.env.get(("v", fr.id, f.params[0]["id"]))
            if isinstance(p0, ObjPtr):
                u_old = entry.env.get(("f", p0.obj, p0.prefix + "_used"))
            u_new = st.env.get(("f", v.obj, v.prefix + "_used"))
            if isinstance(u_old, Lin) and isinstance(u_new, Lin) and isinstance(need, Lin):
                if st.entails(need - u_old):
                    if not st.entails_eq(u_new, u_old):
                        bad.append("_used kept (request covers the content)")
                elif not st.entails(u_old - u_new):
                    bad.append("_used <= old _used")
        if bad and "join" not in st.trail:
            ok, det = False, "%s not shown for the returned buffer on path %s" % (", ".join(bad), " / ".join(st.trail[-8:]))
    agg["LIN:%s:POST" % f.name] = [ok, FRef(f), f.line, det, True]
    return n


def reachable_buffers(an, f, st, fr):
    """(object, prefix, text) of the buffers an entry point's parameters lead to at this state"""
    out = []
    for p in f.params:
        v = st.env.get(("v", fr.id, p["id"]))
        if not isinstance(v, ObjPtr):
            continue
        rec = an.objrec.get((v.obj, v.prefix))
        if rec in BUFFER_RECORDS:
            out.append((v.obj, v.prefix, p["n"]))
            continue
        # one hop: pointer members to buffers (array._buf, slice._a._buf)
        for k, val in st.env.items():
            if k[0] == "f" and k[1] == v.obj and k[2].startswith(v.prefix) and isinstance(val, ObjPtr):
                if an.objrec.get((val.obj, val.prefix)) in BUFFER_RECORDS:
                    out.append((val.obj, val.prefix, "%s->%s" % (p["n"], k[2][len(v.prefix):])))
    return out


BUF_CONTRACTS = {
    "mpt_buffer_set": {"src_data": ("bytes", "len", True)},
    "mpt_array_append": {"base": ("bytes", "len", True)},
    "mpt_array_set": {"data": ("bytes", "len", True)},
}
# functions that return the added area for the caller to fill: the bytes they add are deliberately not written
# functions whose contract is to set the capacity (content beyond it is given up on purpose)
DETACH_MAY_TRUNCATE = {"mpt_array_reserve": "explicit capacity request", "mpt_array_reduce": "requests exactly _used",
                       "mpt_array_push": "request follows the encoder state (done + scratch), which the buffer fields do not determine"}
LINBUF_CXX_EXCLUDED = {
    "mpt::slice::write": "forwards to mpt_slice_write, which is analysed as a C entry point (the combined exploration exceeds the budget)",
    "mpt::array::set": "the four overloads go through int/size_t conversions of a strlen() result and through reference<content>::instance() twice; "
                       "the engine does not identify the two loads of the handle's buffer and reports the copies as unbounded (read: not decided)",
    "mpt::encode_array::shift": "after the fix the moved length is `done + scratch` (a sum of two unsigned state fields) against content::length() of the "
                                "buffer found through array::data(); the engine loses the identity of that buffer across the inline accessors (not decided)",
}
# functions that return the inserted area for the caller to fill: [ret, ret + len) counts as written, the rest of what they add does not
GAPFILL_EXEMPT = {"mpt_buffer_insert": "returns the inserted area", "mpt_array_insert": "returns the inserted area"}
GLOBAL_INV = {"_mpt_buffer_alloc_psize": (0, 4 * 1024 * 1024 + 8, 8)}      # 0 (unset) or a page size of at least 8


def entry_points(prog, files):
    """functions of the files that are reached from outside: exported ones, and file-local ones that no function of these files
    calls directly (vtable members, callbacks).  A file-local helper that is only called is analysed in its callers' context."""
    funcs = [f for f in prog.funcs_in(files) if not f.nocfg]
    called = set()
    for f in funcs:
        for b, i, e in f.elements():
            if e.get("k") == "call" and e.get("fn"):
                for g in prog.resolve_call(f, e):
                    called.add(g.key())
    # file-local functions whose address is taken (members of an interface table) are reached from outside as well, even
    # when a sibling also calls them directly
    taken = set()
    names = {f.name for f in funcs if f.static}
    from .facts import walk as _walk

    def refs(tree, skip):
        for n in _walk(tree):
            if n.get("k") == "ref" and n.get("d", {}).get("dk") == "fn" and n["d"].get("n") in names and id(n) not in skip:
                taken.add(n["d"]["n"])
    for f in funcs:
        skip = set()
        for b, i, n in f.walk_all():
            if n.get("k") == "call" and n.get("callee") is not None:
                c = strip(n["callee"], all_casts=True)
                if c.get("k") == "ref":
                    skip.add(id(c))
        for b, i, e in f.elements():
            refs(e, skip)
    fs = set(files)
    for u, g in prog.globals:
        if g.get("file") in fs and g.get("init") is not None:
            refs(g["init"], set())
    return [f for f in funcs if not f.static or f.key() not in called or f.name in taken]


class FRef:
    """what an obligation needs of a function (picklable)"""
    def __init__(self, f):
        self.file, self.qn, self.name, self.line = f.file, f.qn, f.name, f.line


_G = {}


def _parallel(worker, n, jobs=None):
    """run worker(i) for i in range(n) in forked processes (the program model is shared copy-on-write)"""
    import multiprocessing as mp, os
    jobs = jobs or min(16, os.cpu_count() or 4, n)
    if jobs <= 1 or os.environ.get("LIN_SERIAL"):
        return [worker(i) for i in range(n)]
    ctx = mp.get_context("fork")
    with ctx.Pool(jobs) as pool:
        return pool.map(worker, range(n), chunksize=1)


def _merge_obls(an, f, agg, undecided, stats):
    for o in an.obls:
        stats["access_checks"] = stats.get("access_checks", 0) + 1
        key = "LIN:%s:%s:%s" % (o.func.name, o.kind, norm(o.text)[:80])
        cur = agg.get(key)
        if o.ok:
            if cur is None:
                agg[key] = [True, FRef(o.func), o.line, "", True]
            continue
        if not o.exact:
            if __import__("os").environ.get("LIN_SHOWUNDEC"):
                print("  [undecided] %s: %s" % (key, o.detail[:500]), flush=True)
            undecided.add(key)
            if cur is None:
                agg[key] = [True, FRef(o.func), o.line, "", False]
            continue
        if cur is None or cur[0]:
            agg[key] = [False, FRef(o.func), o.line, "%s (entry point %s, call chain %s)" % (o.detail, f.name, " > ".join(o.chain)), True]


def _fini_target(an, st, fr, call):
    """(owner object, prefix, offset, element size, used) for a call `fini(ptr + pos)` into the data of a buffer object"""
    ce = strip(call["callee"], all_casts=True)
    nm = ce.get("f") if ce.get("k") == "mem" else (ce.get("d", {}).get("n") if ce.get("k") == "ref" else None)
    if nm != "fini" or len(call.get("args", [])) != 1:
        return None
    an.noeffect += 1
    try:
        p = an.ev(call["args"][0], st, fr)
    finally:
        an.noeffect -= 1
    if not isinstance(p, Ptr) or p.region is None:
        return None
    own = st.env.get(("powner", p.region.id))
    if own is None:
        return None
    used = st.env.get(("f", own[0], own[1] + "_used"))
    # element size: the local this function loaded from `<traits>->size`
    f = fr.f
    ids = getattr(f, "_esize_locals", None)
    if ids is None:
        ids = set()
        for b_, i_, n in f.walk_all():
            src = None
            if n.get("k") == "bin" and n.get("op") == "=":
                l = strip(n["a"], lvalue_to_rvalue=False)
                if l.get("k") == "ref" and "id" in l["d"]:
                    src = (l["d"]["id"], strip(n["b"], all_casts=True))
                    if src[1].get("k") == "mem" and src[1].get("f") == "size":
                        ids.add(src[0])
            elif n.get("k") == "decl":
                for v in n.get("vars", []):
                    if v.get("init") is not None:
                        r = strip(v["init"], all_casts=True)
                        if r.get("k") == "mem" and r.get("f") == "size":
                            ids.add(v["id"])
        f._esize_locals = ids
    vals = [st.env.get(("v", fr.id, i)) for i in ids]
    vals = [v for v in vals if isinstance(v, Lin)]
    size = vals[0] if len(vals) == 1 else None
    if size is None and not ids:
        # the loop lives in a file-local helper that is handed the element size: the argument the caller passed for it
        # (a parameter of this function whose value is what the caller loaded from `<traits>->size`)
        x = fr.parent
        while x is not None and size is None:
            pf = x.f
            pids = getattr(pf, "_esize_locals", None)
            if pids is None:
                pids = set()
                for b_, i_, n in pf.walk_all():
                    if n.get("k") == "bin" and n.get("op") == "=":
                        l = strip(n["a"], lvalue_to_rvalue=False)
                        r = strip(n["b"], all_casts=True)
                        if l.get("k") == "ref" and "id" in l["d"] and r.get("k") == "mem" and r.get("f") == "size":
                            pids.add(l["d"]["id"])
                    elif n.get("k") == "decl":
                        for v in n.get("vars", []):
                            if v.get("init") is not None:
                                r = strip(v["init"], all_casts=True)
                                if r.get("k") == "mem" and r.get("f") == "size":
                                    pids.add(v["id"])
                pf._esize_locals = pids
            pv = [st.env.get(("v", x.id, i)) for i in pids]
            pv = [v for v in pv if isinstance(v, Lin)]
            cand = [st.env.get(("v", fr.id, p["id"])) for p in f.params]
            hit = [v for v in cand if isinstance(v, Lin) and any(v == w for w in pv)]
            if len(hit) == 1:
                size = hit[0]
            elif not pv:
                # the caller passed `traits->size` itself: a parameter of this function that is an unsigned size and steps the loop
                pass
            x = x.parent
    if not isinstance(used, Lin) or not isinstance(size, Lin):
        return None
    return own, p.off, size, used


def fini_call_hook(an, st, fr, call, args):
    """FINIIN: what is handed to the element finalizer is a complete element of the used part"""
    t = _fini_target(an, st, fr, call)
    if t is None:
        return
    own, off, size, used = t
    ok = st.entails(off) and st.entails(used - off - size)
    an.oblige("FINIIN", fr, call, ok, "" if ok else "finalizer called for [%r, +%r) of the data of %s whose used part is %r bytes; path: %s" % (
        off, size, own[0], used, " / ".join(st.trail[-8:])), st)


def fini_exit_hook(an, st, fr, head, src, dst):
    """FINICOVER: where a function that releases the buffer leaves its finalizer loop, no complete element of the used part is left"""
    f = fr.f
    # a releasing context: the function itself, or the caller it is analysed in, frees the object (the loop may live in a
    # file-local helper of the function that calls free())
    frees, x = False, fr
    while x is not None and not frees:
        g = x.f
        if not hasattr(g, "_calls_free"):
            g._calls_free = any(n.get("k") == "call" and callee_name(n) == "free" for b, i, n in g.walk_all())
        frees = g._calls_free
        x = x.parent
    info = getattr(f, "_fini_loops", None)
    if not frees:
        return
    if info is None:
        info = {}
        if True:
            for h, body in f._lin_loops.items():
                for bid in body:
                    for el in f.blocks[bid].el:
                        if el.get("k") == "call" and el.get("callee") is not None and not el.get("fn"):
                            ce = strip(el["callee"], all_casts=True)
                            if (ce.get("f") if ce.get("k") == "mem" else ce.get("d", {}).get("n")) == "fini":
                                info[h] = el
        f._fini_loops = info
    call = info.get(head)
    if call is None:
        return
    t = _fini_target(an, st, fr, call)
    if t is None:
        return
    own, off, size, used = t
    ok = st.entails(off + size - used - Lin.const(1))
    an.oblige("FINICOVER", fr, call, ok, "" if ok else "the finalizer loop is left at offset %r with %r bytes used in %s (element size %r): a complete element may remain, and the buffer is freed; path: %s" % (
        off, used, own[0], size, " / ".join(st.trail[-8:])), st)


def _buf_root(i):
    prog, roots, fileset = _G["prog"], _G["roots"], _G["fileset"]
    f = roots[i]
    agg, undecided, stats = {}, set(), {}
    invs = {r: buffer_inv for r in BUFFER_RECORDS}
    invs.update({r: slice_inv for r in SLICE_RECORDS})
    an = LinAnalysis(prog, invariants=invs, contracts=BUF_CONTRACTS)
    an.global_inv = dict(GLOBAL_INV)
    an.slot_contracts = {"detach": slot_detach, "get_flags": slot_pure, "addref": slot_pure}
    cxx = f.file.endswith(".cpp")
    an.max_returns = 40 if cxx else 8
    an.state_budget = 8000 if cxx else 6000
    an.track_writes = True
    if f.name != "_mpt_buffer_alloc":
        an.post = {"_mpt_buffer_alloc": post_buffer_alloc}
    # the C++ wrappers go through small inline methods of the headers (reference<T>::instance(), content::data() ..)
    an.policy = (lambda fr, g: "inline" if (g.file in fileset or (cxx and g.file.endswith(".h"))) else "modular")
    an.indirect_hook = fini_call_hook
    an.exit_hook = fini_exit_hook
    import time as _t
    t0 = _t.time()
    entry, fr, outs = an.analyse_root(f)
    for k in ("states", "paths", "inlined", "slot_calls"):
        stats[k] = an.stats.get(k, 0)
    if __import__("os").environ.get("LIN_TIMES"):
        print("  [lin] %-32s %6.1fs states %d" % (f.name, _t.time() - t0, an.stats.get("states", 0)), flush=True)
    _merge_obls(an, f, agg, undecided, stats)
    if an.over_budget:
        # the exploration was cut: nothing is claimed for this entry point beyond the obligations met so far
        undecided.add("LIN:%s:budget" % f.name)
        return {"agg": agg, "undecided": undecided, "stats": stats, "assumed": an.assumed, "cut": f.name}
    inv_ok, inv_det = True, ""
    nb = 0
    for st, v in outs:
        for p in f.params:
            pv = st.env.get(("v", fr.id, p["id"]))
            if isinstance(pv, ObjPtr) and an.objrec.get((pv.obj, pv.prefix)) in SLICE_RECORDS:
                nb += 1
                bad = [t for t, o in slice_inv(an, st, pv.obj, pv.prefix, False) if not o]
                if bad and not st.joined:
                    inv_ok = False
                    inv_det = "%s: %s not shown at return on path %s" % (p["n"], ", ".join(bad), " / ".join(st.trail[-8:]))
                elif bad:
                    undecided.add("LIN:%s:INV" % f.name)
        for obj, prefix, text in reachable_buffers(an, f, st, fr):
            nb += 1
            r = buffer_inv(an, st, obj, prefix, False)
            bad = [t for t, o in r if not o]
            if bad:
                if st.joined:
                    undecided.add("LIN:%s:INV" % f.name)
                else:
                    inv_ok = False
                    inv_det = "%s: %s not shown at return on path %s" % (text, ", ".join(bad), " / ".join(st.trail[-8:]))
    if nb:
        agg["LIN:%s:INV" % f.name] = [inv_ok, FRef(f), f.line, inv_det, True]
    # CUTSPEC: a successful mpt_buffer_cut(buf, off, len) leaves `_used0 - len` bytes (len != 0) resp. `off` bytes (len == 0: cut to
    # the end), and returns that length: what follows the cut is kept, what was cut is gone
    if f.name == "mpt_buffer_cut" and len(f.params) == 3:
        cs_ok, cs_det, ncs = True, "", 0
        for st, v in outs:
            if not isinstance(v, Lin) or st.entails(-v - Lin.const(1)):
                continue
            pv = st.env.get(("v", fr.id, f.params[0]["id"]))
            if not isinstance(pv, ObjPtr):
                continue
            used = st.env.get(("f", pv.obj, pv.prefix + "_used"))
            u0 = st.env.get(("used0", pv.obj, pv.prefix))
            offv = entry.env.get(("v", fr.id, f.params[1]["id"]))
            lenv = entry.env.get(("v", fr.id, f.params[2]["id"]))
            if not all(isinstance(x, Lin) for x in (used, u0, offv, lenv)):
                continue
            ncs += 1
            good = (st.entails_eq(used, u0 - lenv) and not st.entails_eq(lenv, Lin.const(0))) or \
                   (st.entails_eq(lenv, Lin.const(0)) and st.entails_eq(used, offv)) or \
                   (st.entails_eq(used, u0 - lenv) and st.entails_eq(used, offv))
            good = good and st.entails_eq(v, used)
            if not good:
                if st.joined:
                    undecided.add("LIN:%s:CUTSPEC" % f.name)
                elif cs_ok:
                    cs_ok = False
                    cs_det = "after a successful cut of len=%r at off=%r from %r used bytes the buffer has _used=%r and the call returns %r; expected %r (or off for len 0); path %s" % (
                        lenv, offv, u0, used, v, u0 - lenv, " / ".join(st.trail[-8:]))
        if ncs:
            agg["LIN:%s:CUTSPEC" % f.name] = [cs_ok, FRef(f), f.line, cs_det, True]
    # USEDCOVER: what a successful call wrote into a payload lies inside the used length it leaves behind
    cov_ok, cov_det, ncov = True, "", 0
    for st, v in outs:
        if isinstance(v, Lin) and st.entails(-v - Lin.const(1)):
            continue
        if isinstance(v, Ptr) and v.region is None and f.T(f.ret).get("k") == "ptr":
            continue
        for obj, prefix, text in reachable_buffers(an, f, st, fr):
            reg = an.payload_of(st, obj, prefix)
            used = st.env.get(("f", obj, prefix + "_used"))
            if reg is None or not isinstance(used, Lin):
                continue
            for end, wtext, wfn in st.env.get(("written", reg.id), ()):
                ncov += 1
                if not st.entails(used - end):
                    if st.joined:
                        undecided.add("LIN:%s:USEDCOVER" % f.name)
                    else:
                        cov_ok = False
                        cov_det = "%s in %s wrote up to byte %r of %s, _used is %r at the successful return on path %s" % (wtext, wfn, end, text, used, " / ".join(st.trail[-8:]))
    if ncov:
        agg["LIN:%s:USEDCOVER" % f.name] = [cov_ok, FRef(f), f.line, cov_det, True]
    # GAPFILL: when a successful call leaves a longer used area, every byte it added was written by the call
    gap_ok, gap_det, ngap = True, "", 0
    for st, v in outs:
        if isinstance(v, Lin) and st.entails(-v - Lin.const(1)):
            continue
        if isinstance(v, Ptr) and v.region is None and f.T(f.ret).get("k") == "ptr":
            continue
        handed = None
        if f.name in GAPFILL_EXEMPT:
            # the area the function returns for the caller to fill counts as written: [ret, ret + len)
            lp = [p_ for p_ in f.params if p_.get("n") == "len"]
            lv = st.env.get(("v", fr.id, lp[0]["id"])) if lp else None
            if not (isinstance(v, Ptr) and v.region is not None and isinstance(lv, Lin)):
                continue
            handed = (v.region.id, v.off, v.off + lv)
        for obj, prefix, text in reachable_buffers(an, f, st, fr):
            reg = an.payload_of(st, obj, prefix)
            used = st.env.get(("f", obj, prefix + "_used"))
            u0 = st.env.get(("used0", obj, prefix))
            if obj.startswith("N") and ("f", obj, prefix + "_used") in st.env and u0 is not None and not isinstance(u0, Lin):
                u0 = None
            if reg is None or not isinstance(used, Lin) or not isinstance(u0, Lin):
                continue
            if st.entails(u0 - used):
                continue
            joined = st.joined
            st = st.copy()
            st.add(used - u0 - Lin.const(1))       # only executions in which the length grew matter here
            if not st.feasible():
                continue
            st.joined = joined
            ngap += 1
            # greedy cover of [u0, used) by the recorded write intervals
            at = u0
            ivs = list(st.env.get(("wrote", reg.id), ()))
            if handed is not None:
                if handed[0] != reg.id:
                    continue
                ivs.append((handed[1], handed[2]))
            # merge pieces that touch or overlap
            merged = True
            while merged and len(ivs) > 1:
                merged = False
                for i1 in range(len(ivs)):
                    for i2 in range(len(ivs)):
                        if i1 != i2:
                            a1, b1 = ivs[i1]
                            a2, b2 = ivs[i2]
                            if st.entails(a2 - a1) and st.entails(b1 - a2):       # a1 <= a2 <= b1
                                nb = b2 if st.entails(b2 - b1) else (b1 if st.entails(b1 - b2) else None)
                                if nb is not None:
                                    ivs = [iv for k, iv in enumerate(ivs) if k not in (i1, i2)] + [(a1, nb)]
                                    merged = True
                                    break
                    if merged:
                        break
            progress = True
            while progress and not st.entails(at - used):
                progress = False
                for a, b in ivs:
                    if st.entails(at - a) and st.entails(b - at - Lin.const(1)):
                        at = b
                        progress = True
                        break
            if not st.entails(at - used):
                if st.joined or an.stats.get("havoc_calls", 0) and any(True for _ in ()):
                    undecided.add("LIN:%s:GAPFILL" % f.name)
                elif st.joined:
                    undecided.add("LIN:%s:GAPFILL" % f.name)
                else:
                    gap_ok = False
                    gap_det = "%s grows from %r to %r bytes, the call wrote %s: bytes from %r on are not shown to be written; path: %s" % (
                        text, u0, used, ", ".join("[%r,%r)" % iv for iv in ivs) or "nothing", at, " / ".join(st.trail[-8:]))
    if ngap:
        agg["LIN:%s:GAPFILL" % f.name] = [gap_ok, FRef(f), f.line, gap_det, True]
    if f.name == "_mpt_buffer_alloc":
        check_post_buffer(an, f, fr, entry, outs, "len", True, agg)
    elif f.name.endswith("_detach") and len(f.params) == 2:
        check_post_buffer(an, f, fr, entry, outs, f.params[1]["n"], False, agg)
    return {"agg": agg, "undecided": undecided, "stats": stats, "assumed": an.assumed, "cut": None}


def _collect(res, parts):
    agg, undecided, assumed, cut = {}, set(), set(), []
    stats = {}
    for p in parts:
        for k, v in p["agg"].items():
            cur = agg.get(k)
            if cur is None or (cur[0] and not v[0]):
                agg[k] = v
            elif cur[0] and v[0] and not v[4]:
                cur[4] = False
        undecided |= p["undecided"]
        assumed |= set(p["assumed"])
        if p["cut"]:
            cut.append(p["cut"])
        for k, v in p["stats"].items():
            stats[k] = stats.get(k, 0) + v
    for key in sorted(agg):
        ok, fn, line, detail, decided = agg[key]
        res.ob(key, ok, fn, line, detail)
    stats["roots"] = len(parts)
    for k, v in stats.items():
        res.count(k, v)
    res.notes.append({"undecided_behind_joins": sorted(undecided)[:80], "callees_assumed_to_keep_INV": sorted(assumed), "entry_points_cut_by_budget": cut})
    return agg


def run_linbuf(prog, ctx=None):
    res = Result("LINBUF")
    files = [x for x in (ctx.get("files", []) if ctx else []) if x.endswith(".c") and x.startswith((ctx or {}).get("only_dir", ""))]
    cxxfiles = [x for x in (ctx.get("files", []) if ctx else []) if x in (ctx or {}).get("cxx_files", [])]
    roots = sorted(entry_points(prog, files), key=lambda f: (f.file, f.line))
    roots += sorted([f for f in entry_points(prog, cxxfiles) if f.qn not in LINBUF_CXX_EXCLUDED], key=lambda f: (f.file, f.line, f.qn))
    files = files + cxxfiles
    if len(roots) < 12:
        raise Broken("LINBUF: only %d entry points in the buffer files" % len(roots))
    _G.update(prog=prog, roots=roots, fileset=set(files))
    parts = _parallel(_buf_root, len(roots))
    agg = _collect(res, parts)
    if "LIN:_mpt_buffer_alloc:POST" not in agg:
        raise Broken("LINBUF: allocation contract has no implementation to check (_mpt_buffer_alloc)")
    return res


def dead_map_constructor(prog):
    """_mpt_buffer_map() refuses every call as long as its page size variable starts as 0 and is only assigned behind
    `!_mpt_buffer_map_psize ||` (the assignment runs only when the variable is non-zero already).  Returns the reason text
    when that is the shape of the code, else None (then the mapped buffer's functions are analysed like the others)."""
    gv = prog.global_var("_mpt_buffer_map_psize", "mptcore/array/buffer_map.c")
    if gv is None or gv[1].get("init") is None:
        return None
    from .facts import cval as _cval, walk as _walk
    if _cval(gv[1]["init"]) != 0:
        return None
    guarded, stores = set(), []
    for f in prog.by_file.get("mptcore/array/buffer_map.c", []):
        trees = []
        for bid, blk in f.blocks.items():
            trees.extend(blk.el)
            if blk.term and isinstance(blk.term.get("cond"), dict):
                trees.append(blk.term["cond"])
        for n in (m for t in trees for m in _walk(t)):
            if n.get("k") == "bin" and n.get("op") == "||":
                a = strip(n["a"], all_casts=True)
                if a.get("k") == "un" and a.get("op") == "!":
                    x = strip(a["e"], all_casts=True)
                    if x.get("k") == "ref" and x["d"].get("n") == "_mpt_buffer_map_psize":
                        for m in _walk(n["b"]):
                            if m.get("k") == "bin" and m.get("op") == "=":
                                guarded.add((m.get("l"), show(m, f)))
            if n.get("k") == "bin" and n.get("op", "").endswith("=") and n["op"] not in ("==", "!=", "<=", ">="):
                l = strip(n["a"], lvalue_to_rvalue=False)
                if l.get("k") == "ref" and l["d"].get("n") == "_mpt_buffer_map_psize":
                    stores.append((n.get("l"), show(n, f)))
            if n.get("k") == "un" and n.get("op") == "&":
                x = strip(n["e"], lvalue_to_rvalue=False)
                if x.get("k") == "ref" and x["d"].get("n") == "_mpt_buffer_map_psize":
                    return None
    if not stores or not all(n in guarded for n in stores):
        return None
    return ("_mpt_buffer_map_psize is 0 initially and its %d assignments all sit behind `!_mpt_buffer_map_psize ||`: they never run, "
            "_mpt_buffer_map() returns 0 for every call and no memory-mapped buffer exists" % len(stores))


def run_linfini(prog, ctx=None):
    """LINFINI (C05, C15): the FINIIN / FINICOVER obligations of the buffer analysis alone, for the entry points of the array
    files that call an element finalizer"""
    res = Result("LINFINI")
    files = sorted(x for x in prog.by_file if x.startswith("mptcore/array/") and x.endswith(".c"))

    def has_fini(f, depth=0):
        for b, i, n in f.walk_all():
            if n.get("k") == "call" and n.get("callee") is not None and not n.get("fn"):
                ce = strip(n["callee"], all_casts=True)
                if (ce.get("f") if ce.get("k") == "mem" else ce.get("d", {}).get("n")) == "fini":
                    return True
            if n.get("k") == "call" and n.get("fn") and depth < 2:
                # the loop may have been moved into a file-local helper
                for g in prog.resolve_call(f, n):
                    if g.static and g.file == f.file and not g.nocfg and g.key() != f.key() and has_fini(g, depth + 1):
                        return True
        return False
    roots = sorted([f for f in entry_points(prog, files) if has_fini(f)], key=lambda f: (f.file, f.line))
    dead = dead_map_constructor(prog)
    if dead:
        # the interface functions of the memory-mapped buffer cannot be reached: no such buffer can be created (see the note)
        roots = [f for f in roots if f.file != "mptcore/array/buffer_map.c"]
        res.notes.append({"not_analysed": "mptcore/array/buffer_map.c", "reason": dead})
    if len(roots) < 3:
        raise Broken("LINFINI: only %d entry points with a finalizer call in the array files" % len(roots))
    _G.update(prog=prog, roots=roots, fileset=set(files))
    parts = _parallel(_buf_root, len(roots))
    sub = Result("x")
    agg = _collect(sub, parts)
    n = 0
    for o in sub.obs:
        if ":FINIIN:" in o.key or ":FINICOVER:" in o.key:
            o.key = "LINFINI:" + o.key.split(":", 1)[1]
            o.rule = "LINFINI"
            res.obs.append(o)
            n += 1
    res.notes.extend(sub.notes)
    if not any(":FINICOVER:" in o.key for o in res.obs):
        raise Broken("LINFINI: no finalizer loop of a releasing function was reached")
    return res


# =====================================================================================================================
# LINIDENT (C16): identifiers — inline area of _max bytes at _val, external block of _len bytes when _len > _max
# =====================================================================================================================
IDENT_RECORDS = ("mpt_identifier", "mpt::identifier")


def ident_inv(an, st, obj, prefix, assume):
    ln = st.env.get(("f", obj, prefix + "_len"))
    mx = st.env.get(("f", obj, prefix + "_max"))
    if assume:
        if obj is None:
            return None
        # the inline area: at least the declared 4 bytes, at least _max bytes
        sz = an.fresh(st, "inline")
        st.add(sz - Lin.const(4))
        st.add(sz - mx)
        reg = Region("inline(%s%s)" % (obj, prefix.rstrip(".")), sz, "storage")
        st.env[("f", obj, prefix + "_val")] = Ptr(reg, Lin.const(0))
        st.env[("overlay", reg.id)] = (obj, prefix, 4, "_base")       # bytes behind _val[4] are the bytes of _base
        # external content (only meaningful while _len > _max): a block of _len bytes
        st.env[("f", obj, prefix + "_base")] = Ptr(Region("external(%s%s)" % (obj, prefix.rstrip(".")), ln, "storage"), Lin.const(0), True)
        return None
    if not (isinstance(ln, Lin) and isinstance(mx, Lin)):
        return [("identifier fields known", False)]
    res = []
    val = st.env.get(("f", obj, prefix + "_val"))
    if isinstance(val, Ptr) and val.region is not None:
        res.append(("_max <= inline bytes", st.entails(val.region.size - mx)))
    else:
        res.append(("inline area known", False))
    if not st.entails(mx - ln):
        # long content: _base is a block of at least _len bytes
        b = st.env.get(("f", obj, prefix + "_base"))
        ok = isinstance(b, Ptr) and b.region is not None and st.entails_eq(b.off, Lin.const(0)) and st.entails(b.region.size - ln)
        res.append(("long content: _base holds _len bytes", ok))
    return res


IDENT_CONTRACTS = {
    "mpt_identifier_set": {"name": ("bytes", "len", True, (1 << 31) - 1)},      # the length parameter is an int: names are shorter than INT_MAX
}


def _ident_root(i):
    prog, roots, fileset = _G["prog"], _G["roots"], _G["fileset"]
    f = roots[i]
    agg, undecided, stats = {}, set(), {}
    an = LinAnalysis(prog, invariants={r: ident_inv for r in IDENT_RECORDS}, contracts=IDENT_CONTRACTS)
    an.flex = {r: ("_val", 4) for r in IDENT_RECORDS}
    an.max_returns = 16
    an.state_budget = 6000
    an.policy = (lambda fr, g: "inline" if g.file in fileset else "modular")
    if f.name == "mpt_identifier_init":
        # initialiser: the object is `len` bytes of raw memory, nothing is assumed about its fields
        def pre(an2, st, fr):
            lv = None
            for p in f.params:
                if p["n"] == "len":
                    lv = st.env.get(("v", fr.id, p["id"]))
            if isinstance(lv, Lin):
                st.add(lv - Lin.const(4))        # shorter objects are left alone by the function: nothing to show
                st.env[("f", "P.id", "_val")] = Ptr(Region("inline(P.id)", lv - Lin.const(4), "storage"), Lin.const(0))
        an.pre_run = pre
    if f.name == "_identifier_init":
        # element constructor of the type traits: raw memory of sizeof(identifier) bytes
        def pre2(an2, st, fr):
            R = prog.records.get("mpt_identifier") or {}
            an2.nobj += 1
            obj = "N%d" % an2.nobj
            an2._name_subobjects("mpt_identifier", obj, "")
            st.env[("f", obj, "_val")] = Ptr(Region("inline(%s)" % obj, Lin.const(R.get("size", 16) - 4), "storage"), Lin.const(0))
            st.env[("v", fr.id, f.params[0]["id"])] = ObjPtr(obj, "")
        an.pre_run = pre2
    entry, fr, outs = an.analyse_root(f)
    for k in ("states", "paths", "inlined"):
        stats[k] = an.stats.get(k, 0)
    _merge_obls(an, f, agg, undecided, stats)
    if an.over_budget:
        undecided.add("LIN:%s:budget" % f.name)
        return {"agg": agg, "undecided": undecided, "stats": stats, "assumed": an.assumed, "cut": f.name}
    inv_ok, inv_det, nb = True, "", 0
    for st, v in outs:
        objs = []
        for p in f.params:
            pv = st.env.get(("v", fr.id, p["id"]))
            if isinstance(pv, ObjPtr) and an.objrec.get((pv.obj, pv.prefix)) in IDENT_RECORDS:
                objs.append((pv, p["n"]))
        if isinstance(v, ObjPtr) and an.objrec.get((v.obj, v.prefix)) in IDENT_RECORDS:
            objs.append((v, "result"))
        for pv, text in objs:
            nb += 1
            bad = [t for t, o in ident_inv(an, st, pv.obj, pv.prefix, False) if not o]
            if bad and not st.joined:
                inv_ok = False
                inv_det = "%s: %s not shown at return on path %s" % (text, ", ".join(bad), " / ".join(st.trail[-8:]))
            elif bad:
                undecided.add("LIN:%s:INV" % f.name)
    if nb:
        agg["LIN:%s:INV" % f.name] = [inv_ok, FRef(f), f.line, inv_det, True]
    # EXTLONG: an identifier in which the function installed a fresh block (its _base points to an allocation made here)
    # reads as long content (_len > _max) at return; with _len <= _max every reader takes the inline bytes and nobody frees the block
    ext_ok, ext_det, ne = True, "", 0
    for st, v in outs:
        for p in f.params:
            pv = st.env.get(("v", fr.id, p["id"]))
            if not (isinstance(pv, ObjPtr) and an.objrec.get((pv.obj, pv.prefix)) in IDENT_RECORDS):
                continue
            b = st.env.get(("f", pv.obj, pv.prefix + "_base"))
            ln = st.env.get(("f", pv.obj, pv.prefix + "_len"))
            mx = st.env.get(("f", pv.obj, pv.prefix + "_max"))
            if isinstance(b, Ptr) and b.region is not None and b.region.kind == "alloc" and isinstance(ln, Lin) and isinstance(mx, Lin):
                ne += 1
                if not st.entails(ln - mx - Lin.const(1)):
                    if st.joined:
                        undecided.add("LIN:%s:EXTLONG" % f.name)
                    elif ext_ok:
                        ext_ok = False
                        ext_det = "%s: a block allocated here is installed as _base while _len (%r) is not shown to exceed _max (%r): readers take the inline bytes and the block is never freed; path %s" % (
                            p["n"], ln, mx, " / ".join(st.trail[-8:]))
    if ne:
        agg["LIN:%s:EXTLONG" % f.name] = [ext_ok, FRef(f), f.line, ext_det, True]
    return {"agg": agg, "undecided": undecided, "stats": stats, "assumed": an.assumed, "cut": None}


def run_linident(prog, ctx=None):
    res = Result("LINIDENT")
    files = [x for x in (ctx.get("files", []) if ctx else []) if x.endswith("identifier.c")]
    roots = sorted(entry_points(prog, files), key=lambda f: (f.file, f.line))
    if len(roots) < 6:
        raise Broken("LINIDENT: only %d functions in identifier.c" % len(roots))
    _G.update(prog=prog, roots=roots, fileset=set(files))
    parts = _parallel(_ident_root, len(roots))
    _collect(res, parts)
    return res


# =====================================================================================================================
# LINPATH (C08, C10): configuration paths — base is the payload of a buffer exactly when the HasArray flag is set
# =====================================================================================================================
PATH_RECORDS = ("mpt_path", "mpt::path")
PATH_HASARRAY = 0x40


def _path_root(i):
    prog, roots, fileset = _G["prog"], _G["roots"], _G["fileset"]
    f, variant = roots[i]
    agg, undecided, stats = {}, set(), {}
    invs = {r: buffer_inv for r in BUFFER_RECORDS}
    an = LinAnalysis(prog, invariants=invs, contracts={})
    an.global_inv = dict(GLOBAL_INV)
    an.slot_contracts = {"detach": slot_detach, "get_flags": slot_pure, "addref": slot_pure}
    an.post = {"_mpt_buffer_alloc": post_buffer_alloc}
    an.max_returns = 8
    an.state_budget = 6000
    an.policy = (lambda fr, g: "inline" if (g.file in fileset or g.file.startswith("mptcore/array/")) else "modular")

    def pre(an2, st, fr):
        # the path parameter: with the array flag its base is the payload of a valid buffer, without it plain caller memory
        for p in f.params:
            pv = st.env.get(("v", fr.id, p["id"]))
            if isinstance(pv, ObjPtr) and an2.objrec.get((pv.obj, pv.prefix)) in PATH_RECORDS:
                fl = st.env.get(("f", pv.obj, pv.prefix + "flags"))
                if not (isinstance(fl, Lin) and len(fl.t) == 1):
                    continue
                sym = list(fl.t)[0]
                for fld in ("off", "len"):
                    x = st.env.get(("f", pv.obj, pv.prefix + fld))
                    if isinstance(x, Lin):
                        st.add(Lin.const(PTRDIFF_MAX) - x)          # sizes of parts of one object
                if variant == "array":
                    st.env[("bits", sym)] = (PATH_HASARRAY, PATH_HASARRAY)
                    st.add(fl - Lin.const(PATH_HASARRAY))
                    b = an2.lazy_object(st, fr.f, "mpt_buffer", maybe_null=False, kind="L")
                    reg = an2.payload_of(st, b.obj, "")
                    st.env[("f", pv.obj, pv.prefix + "base")] = Ptr(reg, Lin.const(0), True)
                    # the path text [off, off+len) lies inside the used data of its buffer
                    off = st.env.get(("f", pv.obj, pv.prefix + "off"))
                    ln = st.env.get(("f", pv.obj, pv.prefix + "len"))
                    used = st.env.get(("f", b.obj, "_used"))
                    if isinstance(off, Lin) and isinstance(ln, Lin) and isinstance(used, Lin):
                        st.add(used - off - ln)
                else:
                    st.env[("bits", sym)] = (PATH_HASARRAY, 0)
                    st.env.pop(("f", pv.obj, pv.prefix + "base"), None)
    an.pre_run = pre
    entry, fr, outs = an.analyse_root(f)
    for k in ("states", "paths", "inlined", "slot_calls"):
        stats[k] = an.stats.get(k, 0)
    # obligations are attributed to the variant they were met in
    for o in an.obls:
        o.text = o.text
    _merge_obls(an, f, agg, undecided, stats)
    if an.over_budget:
        undecided.add("LIN:%s:budget" % f.name)
        return {"agg": agg, "undecided": undecided, "stats": stats, "assumed": an.assumed, "cut": f.name}
    # exit: when the flag says array, base is the payload start of a buffer that satisfies its invariant
    inv_ok, inv_det, nb = True, "", 0
    for st, v in outs:
        for p in f.params:
            pv = st.env.get(("v", fr.id, p["id"]))
            if not (isinstance(pv, ObjPtr) and an.objrec.get((pv.obj, pv.prefix)) in PATH_RECORDS):
                continue
            fl = st.env.get(("f", pv.obj, pv.prefix + "flags"))
            bf = an.bits_of(st, fl) if isinstance(fl, Lin) else None
            if isinstance(fl, Lin) and fl.is_const():
                bf = (0xff, fl.c)
            if not bf or not (bf[0] & PATH_HASARRAY) or not (bf[1] & PATH_HASARRAY):
                continue         # flag clear or unknown: base is caller memory, nothing to show
            nb += 1
            base = st.env.get(("f", pv.obj, pv.prefix + "base"))
            bad = []
            if isinstance(base, Ptr) and base.region is None:
                pass             # null base with the flag: tolerated by every reader (tested first)
            elif not (isinstance(base, Ptr) and base.region is not None and st.env.get(("powner", base.region.id)) is not None and st.entails_eq(base.off, Lin.const(0))):
                bad.append("base is the payload start of a buffer")
            else:
                own = st.env[("powner", base.region.id)]
                bad.extend(t for t, o in buffer_inv(an, st, own[0], own[1], False) if not o)
                off = st.env.get(("f", pv.obj, pv.prefix + "off"))
                ln = st.env.get(("f", pv.obj, pv.prefix + "len"))
                used = st.env.get(("f", own[0], own[1] + "_used"))
                if not (isinstance(off, Lin) and isinstance(ln, Lin) and isinstance(used, Lin) and st.entails(used - off - ln)):
                    bad.append("off + len <= _used of the buffer")
            if bad:
                if st.joined:
                    undecided.add("LIN:%s:INV" % f.name)
                else:
                    inv_ok = False
                    inv_det = "%s (array flag set): %s not shown at return on path %s" % (p["n"], ", ".join(bad), " / ".join(st.trail[-8:]))
    if nb:
        agg["LIN:%s:INV" % f.name] = [inv_ok, FRef(f), f.line, inv_det, True]
    return {"agg": agg, "undecided": undecided, "stats": stats, "assumed": an.assumed, "cut": None}


# path functions whose accesses are justified by what is stored *in* the path text (element lengths of the binary format, the
# position of the last separator), not by the fields: a linear relation over the fields cannot decide them
LINPATH_EXCLUDED = {
    "mpt_path_add": "indexes by element lengths it trusts the caller to have validated (add <= data behind the path)",
    "mpt_path_del": "walks back by the element length stored in the text / scans for the separator",
    "mpt_path_last": "same: length byte of the last element / separator scan",
    "mpt_path_next": "same: `first` and the length byte behind the first element",
}


def run_linpath(prog, ctx=None):
    res = Result("LINPATH")
    # all path primitives of the program are analysed (they call each other); findings are attributed by file as usual
    files = sorted(x for x in prog.by_file if x.startswith("mptcore/config/path_") and x.endswith(".c"))
    funcs = sorted(entry_points(prog, files), key=lambda f: (f.file, f.line))
    roots = []
    for f in funcs:
        if f.name in LINPATH_EXCLUDED:
            continue
        haspath = any(f.T(f.T(p["t"]).get("to")).get("name") in PATH_RECORDS for p in f.params if f.T(p["t"]).get("k") == "ptr")
        if haspath:
            roots.append((f, "array"))
            roots.append((f, "plain"))
    if len(roots) < 8:
        raise Broken("LINPATH: only %d path functions found" % (len(roots) // 2))
    _G.update(prog=prog, roots=roots, fileset=set(files))
    parts = _parallel(_path_root, len(roots))
    _collect(res, parts)
    return res


# =====================================================================================================================
# LINCODEC (C01): the frame encoders write inside the output vector they are handed
# =====================================================================================================================
def iovec_inv(an, st, obj, prefix, assume):
    ln = st.env.get(("f", obj, prefix + "iov_len"))
    if assume:
        if obj is None:
            return None
        if isinstance(ln, Lin):
            st.add(Lin.const(PTRDIFF_MAX) - ln)
            st.env[("f", obj, prefix + "iov_base")] = Ptr(Region("*%s%siov_base" % (obj, prefix), ln, "contract"), Lin.const(0), True)
        return None
    return []


def _codec_root(i):
    prog, roots, fileset = _G["prog"], _G["roots"], _G["fileset"]
    f = roots[i]
    agg, undecided, stats = {}, set(), {}
    an = LinAnalysis(prog, invariants={"iovec": iovec_inv}, contracts={})
    an.max_returns = 12
    an.state_budget = 8000
    an.policy = (lambda fr, g: "inline" if g.file in fileset else "modular")

    def pre(an2, st, fr):
        # encoder state: byte counts of one object; what was encoded so far (finished part + open block) lies in the
        # output vector of this call (it was written there by the previous calls)
        info = out = None
        for p in f.params:
            pv = st.env.get(("v", fr.id, p["id"]))
            if isinstance(pv, ObjPtr):
                rec = an2.objrec.get((pv.obj, pv.prefix), "")
                if rec.endswith("encode_state"):
                    info = pv
                elif rec == "iovec" and out is None:
                    out = pv
        if info is None:
            return
        done = st.env.get(("f", info.obj, info.prefix + "done"))
        scr = st.env.get(("f", info.obj, info.prefix + "scratch"))
        for x in (done, scr):
            if isinstance(x, Lin):
                st.add(Lin.const(PTRDIFF_MAX) - x)
        if out is not None:
            ln = st.env.get(("f", out.obj, out.prefix + "iov_len"))
            if isinstance(done, Lin) and isinstance(scr, Lin) and isinstance(ln, Lin):
                st.add(ln - done - scr)
        # ENCSTATE (shown at every successful exit by ENCKEEP): the open block is shorter than a full code block
        if isinstance(scr, Lin) and f.name != "mpt_encode_string":
            st.add(Lin.const(ENC_OPEN_MAX) - scr)
    an.pre_run = pre
    entry, fr, outs = an.analyse_root(f)
    for k in ("states", "paths", "inlined"):
        stats[k] = an.stats.get(k, 0)
    _merge_obls(an, f, agg, undecided, stats)
    _enc_keep(an, f, fr, entry, outs, agg, undecided)
    cut = None
    if an.over_budget:
        undecided.add("LIN:%s:budget" % f.name)
        cut = f.name
    return {"agg": agg, "undecided": undecided, "stats": stats, "assumed": an.assumed, "cut": cut}


ENC_OPEN_MAX = 254      # a code byte counts itself and up to 254 data bytes; 255 closes the block at once


def _enc_keep(an, f, fr, entry, outs, agg, undecided):
    """ENCKEEP: a call that reports success never takes back what earlier calls encoded.  With output space granted and
    input handed over (or the message terminated: no input vector), the finished part `done` does not shrink and the
    encoded amount `done + scratch` does not shrink; termination turns the open block into finished data.  Decided on
    exact paths; an exit behind a loop join where the relation is not shown is listed as not decided."""
    info = out = base = None
    for p in f.params:
        pv = entry.env.get(("v", fr.id, p["id"]))
        if isinstance(pv, ObjPtr):
            rec = an.objrec.get((pv.obj, pv.prefix), "")
            if rec.endswith("encode_state"):
                info = (pv, p)
            elif rec == "iovec" and out is None:
                out = (pv, p)
            elif rec == "iovec":
                base = (pv, p)
    if info is None or out is None or base is None:
        return
    d0 = entry.env.get(("f", info[0].obj, info[0].prefix + "done"))
    s0 = entry.env.get(("f", info[0].obj, info[0].prefix + "scratch"))
    if not (isinstance(d0, Lin) and isinstance(s0, Lin)):
        return
    ok, det, n, nterm = True, [], 0, 0
    for st, v in outs:
        if not isinstance(v, Lin) or st.entails(Lin.const(-1) - v):
            continue            # error return: the caller discards or retries
        ov = st.env.get(("v", fr.id, out[1]["id"]))
        bv = st.env.get(("v", fr.id, base[1]["id"]))
        if not isinstance(ov, ObjPtr):
            continue            # reset request (no output vector)
        term = isinstance(bv, Ptr) and bv.region is None
        if not term:
            if not isinstance(bv, ObjPtr):
                continue
            src = st.env.get(("f", bv.obj, bv.prefix + "iov_base"))
            if not (isinstance(src, Ptr) and src.region is not None):
                continue        # message deletion (no source address)
            if src.maybe_null:
                # the member itself is not refined by a test of the local it was loaded into: a path that took the
                # input has a local pointing into the source region that is known to be non-null
                live = [x for k, x in st.env.items() if k[0] == "v" and k[1] == fr.id and isinstance(x, Ptr)
                        and x.region is src.region and not x.maybe_null]
                if not live:
                    continue
        d1 = st.env.get(("f", info[0].obj, info[0].prefix + "done"))
        s1 = st.env.get(("f", info[0].obj, info[0].prefix + "scratch"))
        n += 1
        nterm += 1 if term else 0
        bad = []
        if not (isinstance(d1, Lin) and isinstance(s1, Lin)):
            bad.append("done and scratch are known")
        elif term:
            if not st.entails(d1 - d0 - s0):
                bad.append("done' >= done + scratch (termination keeps the finished data and closes the open block)")
        else:
            if not st.entails(d1 - d0):
                bad.append("done' >= done")
            if not st.entails(d1 + s1 - d0 - s0):
                bad.append("done' + scratch' >= done + scratch")
        if isinstance(s1, Lin) and f.name != "mpt_encode_string" and not st.entails(Lin.const(ENC_OPEN_MAX) - s1):
            bad.append("scratch' <= %d (assumed of the state on entry)" % ENC_OPEN_MAX)
        if not bad:
            continue
        if st.joined or "join" in st.trail:
            undecided.add("LIN:%s:ENCKEEP:%s" % (f.name, "termination" if term else "data behind the block loop"))
            continue
        ok = False
        det.append("%s not shown on path %s (done'=%r scratch'=%r)" % ("; ".join(bad), " / ".join(st.trail[-8:]), d1, s1))
    if n:
        agg["LIN:%s:ENCKEEP" % f.name] = [ok, FRef(f), f.line, " || ".join(det[:3]), True]
    return nterm


def run_lincodec(prog, ctx=None):
    res = Result("LINCODEC")
    files = sorted(x for x in (ctx.get("files", []) if ctx else []) if x.startswith("mptcore/convert/encode_") and x.endswith(".c"))
    roots = sorted(entry_points(prog, files), key=lambda f: (f.file, f.line, f.name))
    if len(roots) < 4:
        raise Broken("LINCODEC: only %d encoder functions found" % len(roots))
    _G.update(prog=prog, roots=roots, fileset=set(files))
    parts = _parallel(_codec_root, len(roots))
    _collect(res, parts)
    return res


# =====================================================================================================================
# LINMSG (C17): the fragment walkers stay inside the fragment list and inside each fragment
# =====================================================================================================================
# (function, parameter) -> parameter holding the element count: arrays of `struct iovec` as the headers document them
MSG_ARRAYS = {
    "mpt_memchr": {"data": ("records", "ndat")}, "mpt_memrchr": {"data": ("records", "ndat")},
    "mpt_memfcn": {"data": ("records", "ndat")}, "mpt_memrfcn": {"data": ("records", "ndat")},
    "mpt_memstr": {"data": ("records", "ndat"), "match": ("bytes", "mlen")}, "mpt_memrstr": {"data": ("records", "ndat"), "match": ("bytes", "mlen")},
    "mpt_memtok": {"data": ("records", "ndat")},
    "mpt_memcpy": {"src": ("records", "nsrc"), "dest": ("records", "ndest")},
    "mpt_message_read": {"dest": ("bytes", "len")},
}
MSG_RECORDS = ("mpt_message", "mpt::message")


def message_inv(an, st, obj, prefix, assume):
    """a message: `used` bytes at `base`, then `clen` further fragments at `cont`"""
    used = st.env.get(("f", obj, prefix + "used"))
    clen = st.env.get(("f", obj, prefix + "clen"))
    if assume:
        if obj is None:
            return None
        if isinstance(used, Lin):
            st.add(Lin.const(PTRDIFF_MAX) - used)
            st.env[("f", obj, prefix + "base")] = Ptr(Region("*%s%sbase" % (obj, prefix), used, "contract"), Lin.const(0), True)
        if isinstance(clen, Lin):
            R = an.prog.records.get("iovec") or {}
            rsz = R.get("size", 16) or 16
            st.add(Lin.const(PTRDIFF_MAX // rsz) - clen)
            reg = Region("*%s%scont" % (obj, prefix), clen.scale(rsz), "contract")
            reg.rec = "iovec"
            st.env[("f", obj, prefix + "cont")] = Ptr(reg, Lin.const(0), True)
        return None
    out = []
    base = st.env.get(("f", obj, prefix + "base"))
    cont = st.env.get(("f", obj, prefix + "cont"))
    if not isinstance(used, Lin) or not isinstance(clen, Lin):
        return [("used and clen known", False)]
    if st.entails_eq(used, Lin.const(0)):
        out.append(("used bytes at base", True))
    elif isinstance(base, Ptr) and base.region is not None:
        out.append(("used bytes at base", st.entails(base.off) and st.entails(base.region.size - base.off - used)))
    else:
        out.append(("used bytes at base", None))
    if st.entails_eq(clen, Lin.const(0)):
        out.append(("clen fragments at cont", True))
    elif isinstance(cont, Ptr) and cont.region is not None and cont.region.rec:
        rsz = (an.prog.records.get(cont.region.rec) or {}).get("size", 16) or 16
        out.append(("clen fragments at cont", st.entails(cont.off) and st.entails(cont.region.size - cont.off - clen.scale(rsz))))
    else:
        out.append(("clen fragments at cont", None))
    return out


def _msg_root(i):
    prog, roots, fileset = _G["prog"], _G["roots"], _G["fileset"]
    f = roots[i]
    agg, undecided, stats = {}, set(), {}
    invs = {"iovec": iovec_inv}
    invs.update({r: message_inv for r in MSG_RECORDS})
    an = LinAnalysis(prog, invariants=invs, contracts=MSG_ARRAYS)
    an.max_returns = 12
    an.state_budget = 6000
    an.peel = True
    an.track_wraps = True
    an.taint_exact = True
    an.policy = (lambda fr, g: "inline" if g.file in fileset else "modular")
    entry, fr, outs = an.analyse_root(f)
    for k in ("states", "paths", "inlined"):
        stats[k] = an.stats.get(k, 0)
    _merge_obls(an, f, agg, undecided, stats)
    if an.over_budget:
        undecided.add("LIN:%s:budget" % f.name)
        return {"agg": agg, "undecided": undecided, "stats": stats, "assumed": an.assumed, "cut": f.name}
    # a message handed in by pointer is a message again when the function returns
    for p in f.params:
        T = f.T(p["t"])
        to = f.T(T.get("to")) if T.get("k") == "ptr" else {}
        if to.get("k") != "record" or to.get("name") not in MSG_RECORDS or to.get("const"):
            continue
        obj = "P." + p["n"]
        for cl in ("used bytes at base", "clen fragments at cont"):
            ok, det, seen = True, "", 0
            for st, v in outs:
                for text, good in message_inv(an, st, obj, "", False):
                    if text != cl:
                        continue
                    seen += 1
                    if good is None or (not good and st.joined):
                        undecided.add("LIN:%s:MSGINV:%s" % (f.name, cl))
                    elif not good and ok:
                        ok = False
                        det = "at return of %s the message *%s is not shown to hold its invariant '%s' (used=%r clen=%r base=%r cont=%r; path %s)" % (
                            f.name, p["n"], cl, st.env.get(("f", obj, "used")), st.env.get(("f", obj, "clen")), st.env.get(("f", obj, "base")),
                            st.env.get(("f", obj, "cont")), " / ".join(st.trail[-8:]))
            if seen:
                agg["LIN:%s:MSGINV:%s" % (f.name, cl)] = [ok, FRef(f), f.line, det, True]
    return {"agg": agg, "undecided": undecided, "stats": stats, "assumed": an.assumed, "cut": None}


def run_linmsg(prog, ctx=None):
    res = Result("LINMSG")
    files = sorted(x for x in (ctx.get("files", []) if ctx else []) if x.startswith("mptcore/message/") and x.endswith(".c"))
    roots = sorted(entry_points(prog, files), key=lambda f: (f.file, f.line, f.name))
    if len(roots) < 10:
        raise Broken("LINMSG: only %d message functions found" % len(roots))
    missing = [n for n in MSG_ARRAYS if not any(r.name == n for r in roots)]
    if missing:
        raise Broken("LINMSG: functions of the contract table not found: %s" % ", ".join(missing))
    _G.update(prog=prog, roots=roots, fileset=set(files))
    parts = _parallel(_msg_root, len(roots))
    _collect(res, parts)
    return res


# =====================================================================================================================
# LINNODE (C14): sibling links written by a function agree when it returns
# =====================================================================================================================
NODE_RECORDS = ("mpt_node", "mpt::node")
NODE_LINKS = {"next": "prev", "prev": "next"}


def node_inv(an, st, obj, prefix, assume):
    # no numeric invariant: the record is listed so that node pointers become symbolic objects
    return None if assume else []


def _node_root(i):
    prog, roots, fileset = _G["prog"], _G["roots"], _G["fileset"]
    f = roots[i]
    agg, undecided, stats = {}, set(), {}
    an = LinAnalysis(prog, invariants={r: node_inv for r in NODE_RECORDS}, contracts={})
    an.no_alias = set(NODE_RECORDS)        # well-formed input: nodes reached over different access paths are different nodes
    an.track_fields = set(NODE_LINKS) | {"parent", "children"}
    an.max_returns = 16
    an.state_budget = 4000
    an.policy = (lambda fr, g: "inline" if g.file in fileset else "modular")
    entry, fr, outs = an.analyse_root(f)
    for k in ("states", "paths", "inlined"):
        stats[k] = an.stats.get(k, 0)
    _merge_obls(an, f, agg, undecided, stats)
    if an.over_budget:
        undecided.add("LIN:%s:budget" % f.name)
        return {"agg": agg, "undecided": undecided, "stats": stats, "assumed": an.assumed, "cut": f.name}
    ok, det, n = True, "", 0
    for st, v in outs:
        for k in [k for k in st.env if k[0] == "stored" and k[2].rsplit(".", 1)[-1] in NODE_LINKS]:
            obj, path = k[1], k[2]
            fld = path.rsplit(".", 1)[-1]
            pre = path[:-len(fld)]
            val = st.env.get(("f", obj, path))
            if not isinstance(val, ObjPtr) or val.maybe_null or val.boff:
                continue        # null, or not known to be a node: nothing to pair
            n += 1
            back = st.env.get(("f", val.obj, val.prefix + NODE_LINKS[fld]))
            if back is None:
                undecided.add("LIN:%s:LINKPAIR" % f.name)
                continue
            good = isinstance(back, ObjPtr) and (back.obj, back.prefix) == (obj, pre)
            if not good:
                if st.joined:
                    undecided.add("LIN:%s:LINKPAIR" % f.name)
                else:
                    ok = False
                    det = "at return %s%s->%s is %s, but that node's ->%s is %s (path %s)" % (obj, ("." + pre) if pre else "", fld, val, NODE_LINKS[fld], back, " / ".join(st.trail[-8:]))
    if n:
        agg["LIN:%s:LINKPAIR" % f.name] = [ok, FRef(f), f.line, det, True]
    # NOREF: a node the function cut loose (parent, next and prev all null at return, at least one of them cleared here) is
    # no longer the child / next / prev of any node the function looked at
    ok, det, n = True, "", 0
    isnull = lambda v: isinstance(v, Ptr) and v.region is None
    for st, v in outs:
        loose = set()
        for k in st.env:
            if k[0] == "stored" and k[2].rsplit(".", 1)[-1] in ("parent", "next", "prev"):
                obj, pre = k[1], k[2][:-len(k[2].rsplit(".", 1)[-1])]
                if all(isnull(st.env.get(("f", obj, pre + fl))) for fl in ("parent", "next", "prev")):
                    loose.add((obj, pre))
        for (obj, pre) in loose:
            n += 1
            for k, val in st.env.items():
                if k[0] == "f" and k[2].rsplit(".", 1)[-1] in ("children", "next", "prev") and isinstance(val, ObjPtr) and not val.maybe_null \
                        and (val.obj, val.prefix) == (obj, pre) and k[1] != obj:
                    if st.joined:
                        undecided.add("LIN:%s:NOREF" % f.name)
                    elif ok:
                        ok = False
                        det = "at return %s has no parent, next or prev any more, but %s.%s still points to it (path %s)" % (obj, k[1], k[2], " / ".join(st.trail[-8:]))
    if n:
        agg["LIN:%s:NOREF" % f.name] = [ok, FRef(f), f.line, det, True]
    return {"agg": agg, "undecided": undecided, "stats": stats, "assumed": an.assumed, "cut": None}


def run_linnode(prog, ctx=None):
    res = Result("LINNODE")
    files = sorted(x for x in (ctx.get("files", []) if ctx else []) if x.startswith("mptcore/node/") and x.endswith(".c"))
    roots = sorted(entry_points(prog, files), key=lambda f: (f.file, f.line, f.name))
    if len(roots) < 8:
        raise Broken("LINNODE: only %d node functions found" % len(roots))
    _G.update(prog=prog, roots=roots, fileset=set(files))
    parts = _parallel(_node_root, len(roots))
    _collect(res, parts)
    return res


def run_shiftkeep(prog, ctx=None):
    """SHIFTKEEP: the decoders write the decoded bytes into the part of the queue they have already consumed; between the
    message start `_state.data.pos` and the read position `_state.curr` lies the room for the bytes still to be decoded.
    mpt_queue_shift() may therefore drop only bytes in front of the message start while a block is open: at its call of
    mpt_queue_crop(&qu->data, 0, n) the relational analysis shows n <= _state.data.pos, or the path has established that
    the decoder is between frames (`_state._ctx == 0`).  Dropping the consumed code byte of a frame that begins at offset 0
    leaves the decoder without room for the first data byte: it answers 0 (incomplete) for ever."""
    res = Result("SHIFTKEEP")
    f = prog.func("mpt_queue_shift")
    if f is None:
        raise Broken("anchor missing: mpt_queue_shift")
    an = LinAnalysis(prog, invariants={r: queue_inv for r in QUEUE_RECORDS}, contracts=CONTRACTS)
    an.max_returns = 64
    seen = []

    def at_crop(an2, st, fr, e, args):
        n = args[2] if len(args) > 2 else None
        qv = st.env.get(("v", fr.id, f.params[0]["id"]))
        pos = ctxv = None
        if isinstance(qv, ObjPtr):
            pos = st.env.get(("f", qv.obj, qv.prefix + "_state.data.pos"))
            ctxv = st.env.get(("f", qv.obj, qv.prefix + "_state._ctx"))
        ok = False
        why = "n = %r, data.pos = %r, _ctx = %r" % (n, pos, ctxv)
        if isinstance(n, Lin) and isinstance(pos, Lin) and st.entails(pos - n):
            ok = True
        if isinstance(ctxv, Lin) and st.entails_eq(ctxv, Lin.const(0)):
            ok = True
        seen.append((ok, why, " / ".join(st.trail[-8:]), st.joined, e.get("l")))
        return [(st, an2.fresh_of_type(st, fr.f, e.get("t")))]
    an.post = {"mpt_queue_crop": at_crop}
    an.analyse_root(f)
    if not seen:
        raise Broken("SHIFTKEEP: mpt_queue_shift no longer reaches mpt_queue_crop")
    for k, (ok, why, trail, joined, line) in enumerate(seen):
        if not ok and joined:
            res.notes.append("SHIFTKEEP path %d: behind a join, not decided (%s)" % (k, why))
            continue
        res.ob("mpt_queue_shift:crop on path %d keeps the decoder's room" % k, ok, f, line or f.line,
               "" if ok else "mpt_queue_crop() removes n bytes with %s on the path %s: more than lies in front of the message start while the decoder may be inside a block - the consumed bytes that were the room for the next decoded byte are dropped" % (why, trail))
    return res
