#!/usr/bin/env python3
"""Regenerate /verif/mutations from the fix commits recorded in known_findings.json: one reverse patch per commit.
expect = violation (the property's check must report it) | does-not-apply (a later commit touches the same lines) | not-covered."""
import json, subprocess, os
V = os.path.dirname(os.path.dirname(os.path.abspath(__file__)))
NOT_COVERED = {"5d6e93d": "used-length accounting in _fast_append: a value relation, no rule",
               "fb78590": "encode_array::shift is listed as not decided by LINBUF since the fix (LINBUF_CXX_EXCLUDED)",
               "21055d5": "whether the clone's text pointer is set follows the source's current element kind: a condition on the right object, no rule (DERIVEDFIELD holds either way)"}
k = json.load(open(os.path.join(V, "known_findings.json")))
idx = []
for e in k["fixed"]:
    c, p = e["commit"], e["property"]
    patch = subprocess.run(["git", "-C", "/repo", "diff", c, c + "^"], capture_output=True, text=True).stdout
    r = subprocess.run(["git", "-C", "/repo", "apply", "--check", "-"], input=patch, capture_output=True, text=True)
    fn = "revert-%s.patch" % c
    open(os.path.join(V, "mutations", fn), "w").write(patch)
    expect = "violation"
    if c in NOT_COVERED:
        expect = "not-covered"
    if r.returncode != 0:
        expect = "does-not-apply"
    idx.append({"name": "revert-" + c, "property": p, "patch": fn, "expect": expect, "what": "reverse of fix %s: %s" % (c, e["what"][:160])})
json.dump(idx, open(os.path.join(V, "mutations", "index.json"), "w"), indent=1)
print(len(idx), [i["name"] for i in idx if i["expect"] != "violation"])
