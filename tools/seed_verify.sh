#!/bin/sh
# usage: seed_verify.sh <worktree dir>   — confirms a seeded change from its seed/patch.diff alone:
#   clean tree + patch: builds, ctest passes, demo fails;  clean tree: demo passes.   (no git stash: stashes are shared between worktrees)
d=$1
cd "$d" || exit 2
git checkout -q -- . 2>/dev/null
git apply seed/patch.diff || { echo "PATCH DOES NOT APPLY"; exit 1; }
echo "== with change"; git diff --stat | tail -2
cmake -G Ninja -B _build >/dev/null 2>&1 && cmake --build _build >/dev/null 2>&1 || { echo "BUILD FAILED (with)"; exit 1; }
ctest --test-dir _build -j8 2>&1 | grep -E "tests passed|tests failed"
sh seed/run.sh >/tmp/seed_with.out 2>&1; echo "demo exit (with change) = $?"; tail -2 /tmp/seed_with.out
echo "== without change"
git apply -R seed/patch.diff
cmake --build _build >/dev/null 2>&1 || { echo "BUILD FAILED (without)"; exit 1; }
sh seed/run.sh >/tmp/seed_without.out 2>&1; echo "demo exit (without change) = $?"; tail -2 /tmp/seed_without.out
