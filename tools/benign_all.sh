#!/bin/sh
# usage: benign_all.sh [<scratch copy of /repo>]  — runs every check (quick) on each archived behaviour-preserving refactoring
# (benign/B*/refactor-*.diff) applied to a private copy of /repo and reports every check that does not stay silent.
# The copy is made outside /repo and /verif and removed afterwards unless a directory is given.
V=$(cd "$(dirname "$0")/.." && pwd)
R=${1:-$(mktemp -d /tmp/benign-repo.XXXXXX)}
[ -d "$R/.git" ] || rsync -a --exclude _build /repo/ "$R"/
for patch in "$V"/benign/B*/refactor-*.diff; do
  t=$(basename "$(dirname "$patch")")/$(basename "$patch" .diff)
  git -C "$R" checkout -q -- . ; git -C "$R" apply "$patch" 2>/dev/null || { echo "DOES-NOT-APPLY $t"; continue; }
  out=$(mktemp -d /tmp/benign.XXXXXX)
  cd "$V"
  ./check C17 --no-evidence --repo "$R" > $out/C17.log 2>&1
  for p in C01 C03 C04 C05 C06 C07 C08 C09 C10 C11 C12 C13 C14 C15 C16 C19 C20; do ( ./check $p --no-evidence --repo "$R" > $out/$p.log 2>&1 ) & done
  wait
  bad=0
  for f in $out/*.log; do
    if grep -q "^VIOLATION\|ANALYSIS-BROKEN" $f; then bad=1; echo "NOT SILENT $(basename $f .log) on $t:"; grep -A1 "^VIOLATION\|ANALYSIS-BROKEN" $f | grep -v "^VIOLATION\|^--" | cut -c1-330 | head -4; fi
  done
  [ $bad = 0 ] && echo "silent: $t"
  rm -rf $out
  git -C "$R" checkout -q -- .
done
[ -n "$1" ] || rm -rf "$R"
