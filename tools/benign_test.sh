#!/bin/sh
# usage: benign_test.sh <refactor.diff> — applies a behaviour-preserving change to /repo, runs every check (quick) and
# reports any check that does not stay silent (VIOLATION or ANALYSIS-BROKEN); undoes the change afterwards.
patch=$1
git -C /repo apply "$patch" || { echo "DOES-NOT-APPLY $patch"; exit 3; }
out=$(mktemp -d /tmp/benign.XXXXXX)
cd /verif
# one run first so that the fact cache is filled, the others in parallel
./check C17 --no-evidence > $out/C17.log 2>&1
for p in C01 C03 C04 C05 C06 C07 C08 C09 C10 C11 C12 C13 C14 C15 C16 C19 C20; do
  ( ./check $p --no-evidence > $out/$p.log 2>&1 ) &
done
wait
bad=0
for f in $out/*.log; do
  if grep -q "^VIOLATION\|ANALYSIS-BROKEN" $f; then
    bad=1
    echo "NOT SILENT $(basename $f .log) on $(basename $patch):"
    grep -A1 "^VIOLATION\|ANALYSIS-BROKEN" $f | grep -v "^VIOLATION\|^--" | cut -c1-330 | head -6
  fi
done
[ $bad = 0 ] && echo "silent: $(basename $(dirname $(dirname $patch)))/$(basename $patch)"
rm -rf $out
git -C /repo checkout -- .
exit $bad
