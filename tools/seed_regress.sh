#!/bin/sh
# runs every archived seeded change against the check of its property; prints one line per seed
cd /verif
for d in seeded/*/; do
  n=$(basename $d); [ -f $d/patch.diff ] || continue
  p=$(python3 -c "import json;print(json.load(open('$d/meta.json'))['property'])")
  git -C /repo apply /verif/$d/patch.diff 2>/dev/null || { echo "$n $p DOES-NOT-APPLY"; continue; }
  o=$(./check $p --no-evidence 2>&1)
  r=$(echo "$o" | grep -c "^VIOLATION")
  b=$(echo "$o" | grep -c "ANALYSIS-BROKEN")
  git -C /repo checkout -- .
  echo "$n $p violations=$r broken=$b"
done
