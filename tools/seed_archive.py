#!/usr/bin/env python3
"""usage: seed_archive.py <worktree> <name> <property> <detected-by or 'missed'> <needs...>"""
import json, os, shutil, sys
wt, name, prop, det = sys.argv[1:5]
needs = " ".join(sys.argv[5:])
dst = os.path.join("/verif/seeded", name)
os.makedirs(dst, exist_ok=True)
for fn in os.listdir(os.path.join(wt, "seed")):
    if fn.startswith("demo") and not fn.endswith((".c", ".cpp", ".cc", ".h", ".sh", ".py")):
        continue      # compiled binaries
    src = os.path.join(wt, "seed", fn)
    if os.path.isfile(src) and os.path.getsize(src) < 200000 and fn.endswith((".diff", ".c", ".cpp", ".sh", ".md", ".py", ".h", ".txt")):
        shutil.copy(src, os.path.join(dst, fn))
meta = {"property": prop, "needs_to_manifest": needs,
        "confirmed": "tools/seed_verify.sh <worktree>: library builds, ctest 29/29 pass with the change, seed/run.sh exits non-zero with the change and 0 without it",
        "detected_by": det,
        "checked_with": "tools/seed_test.sh seeded/%s/patch.diff %s (git -C /repo apply; ./check; git -C /repo checkout -- .)" % (name, prop)}
json.dump(meta, open(os.path.join(dst, "meta.json"), "w"), indent=1)
print("archived", dst, os.listdir(dst))
