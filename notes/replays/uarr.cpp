#include <cstdio>
#include "array.h"
// two unique_array handles on one buffer (copy construction shares it; the buffer cannot be copied): resizing through one
// handle must either be refused or leave the other handle alone
int main()
{
	mpt::unique_array<int> u1;
	int *p;
	if (!(p = u1.insert(0))) { std::puts("insert failed"); return 2; }
	*p = 1;
	if (!(p = u1.insert(1))) { std::puts("insert failed"); return 2; }
	*p = 2;
	mpt::unique_array<int> u2(u1);
	std::printf("before: u1 has %ld element(s), u2 has %ld\n", u1.length(), u2.length());
	bool ok = u2.resize(0);
	std::printf("u2.resize(0) answers %s; u1 now has %ld element(s), u2 has %ld\n", ok ? "true" : "false", u1.length(), u2.length());
	if (u1.length() != 2) {
		std::puts("the resize through u2 changed what u1 reads");
		return 1;
	}
	return 0;
}
