#include <stdio.h>
#include <string.h>
#include "meta.h"
#include "types.h"
#include "values.h"
static int rest(MPT_INTERFACE(metatype) *mt, double *out, int max)
{
	MPT_INTERFACE(iterator) *it = 0;
	int n = 0;
	MPT_metatype_convert(mt, MPT_ENUM(TypeIteratorPtr), &it);
	if (!it) return -1;
	while (n < max) {
		const MPT_STRUCT(value) *v = it->_vptr->value(it);
		if (!v) break;
		out[n++] = *(const double *) v->_addr;
		if (it->_vptr->advance(it) < 0) break;
	}
	return n;
}
int main(void)
{
	MPT_INTERFACE(metatype) *mt = mpt_iterator_boundary(5, 1, 2, 3), *cl;
	MPT_INTERFACE(iterator) *it = 0;
	double a[8], b[8];
	int na, nb;
	MPT_metatype_convert(mt, MPT_ENUM(TypeIteratorPtr), &it);
	it->_vptr->advance(it);
	it->_vptr->advance(it);
	cl = mt->_vptr->clone(mt);
	na = rest(mt, a, 8);
	nb = rest(cl, b, 8);
	printf("original continues with %d values, clone with %d\n", na, nb);
	return (na == nb && !memcmp(a, b, na * sizeof(*a))) ? 0 : 1;
}
