#include <stdio.h>
#include <string.h>
#include "types.h"
#include "array.h"
#include "meta.h"
/* buffer iterator over "cmd\0one\0two\0three": advance once, clone, walk both: the clone must deliver what the original does */
static int walk(MPT_INTERFACE(metatype) *mt, const char *out[], int max)
{
	MPT_INTERFACE(iterator) *it = 0;
	int n = 0;
	if (mt->_vptr->convertable.convert((void *) mt, MPT_ENUM(TypeIteratorPtr), &it) < 0 || !it) return -1;
	while (n < max) {
		const MPT_STRUCT(value) *val;
		const char *s = 0;
		if (!(val = it->_vptr->value(it))) break;
		if (mpt_value_convert(val, 's', &s) < 0) break;
		out[n++] = s;
		if (it->_vptr->advance(it) <= 0) break;
	}
	return n;
}
int main(void)
{
	static const char txt[] = "cmd\0one\0two\0three";
	MPT_STRUCT(array) a = MPT_ARRAY_INIT;
	MPT_INTERFACE(metatype) *src, *cl;
	MPT_INTERFACE(iterator) *it = 0;
	const char *o[8], *c[8];
	int no, nc, i, bad = 0;
	
	{ MPT_STRUCT(buffer) *b = mpt_array_reserve(&a, sizeof(txt), mpt_type_traits('c')); if (!b || mpt_buffer_set(b, mpt_type_traits('c'), 0, txt, sizeof(txt)) < 0) { puts("setup failed"); return 2; } }
	if (!(src = mpt_meta_buffer(&a))) return 2;
	src->_vptr->convertable.convert((void *) src, MPT_ENUM(TypeIteratorPtr), &it);
	it->_vptr->advance(it);
	if (!(cl = src->_vptr->clone(src))) return 2;
	nc = walk(cl, c, 8);
	no = walk(src, o, 8);
	printf("original after one advance:"); for (i = 0; i < no; i++) printf(" %s", o[i]); printf("\n");
	printf("clone taken at that point: "); for (i = 0; i < nc; i++) printf(" %s", c[i]); printf("\n");
	if (no != nc) ++bad;
	for (i = 0; i < no && i < nc; i++) if (strcmp(o[i], c[i])) ++bad;
	return bad ? 1 : 0;
}
