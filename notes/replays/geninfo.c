#include <stdio.h>
#include <signal.h>
#include <unistd.h>
#include <stdint.h>
#include "meta.h"
/* clearing the text of a generic-info value: no source, length taken from the source */
static void segv(int s) { (void) s; static const char m[] = "SIGSEGV in _mpt_geninfo_set(raw, NULL, -1)\n"; write(1, m, sizeof(m) - 1); _exit(1); }
int main(void)
{
	uint64_t raw[8];
	int ret;
	signal(SIGSEGV, segv);
	if (_mpt_geninfo_init(raw, sizeof(raw)) < 0) return 2;
	ret = _mpt_geninfo_set(raw, "abc", -1);
	printf("set \"abc\": %d\n", ret);
	ret = _mpt_geninfo_set(raw, 0, -1);
	printf("set NULL, -1: %d\n", ret);
	return ret < 0 ? 1 : 0;
}
