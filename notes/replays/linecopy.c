#include <stdio.h>
#include <string.h>
#include "layout.h"
#include "object.h"
#include "types.h"
#include "meta.h"
/* line: generic assignment ("" = copy from sibling) from a line source has to give a line with equal properties */
struct line_src { MPT_INTERFACE(convertable) _c; MPT_STRUCT(line) li; };
static int lineConv(MPT_INTERFACE(convertable) *c, MPT_TYPE(type) type, void *dest)
{
	struct line_src *s = (void *) c;
	if (type == (MPT_TYPE(type)) mpt_line_typeid()) {
		if (dest) *((MPT_STRUCT(line) *) dest) = s->li;
		return type;
	}
	return MPT_ERROR(BadType);
}
int main(void)
{
	static const MPT_INTERFACE_VPTR(convertable) vptr = { lineConv };
	struct line_src src;
	MPT_STRUCT(line) dst;
	int ret;
	src._c._vptr = &vptr;
	mpt_line_init(&src.li);
	src.li.from.x = 0.25f; src.li.to.y = 0.75f; src.li.attr.width = 7; src.li.color.red = 0xff;
	mpt_line_init(&dst);
	ret = mpt_line_set(&dst, "", &src._c);
	printf("copy from a line source: returned %d, x1 %g (source %g), width %d (source %d), red %02x (source %02x)\n",
	       ret, dst.from.x, src.li.from.x, dst.attr.width, src.li.attr.width, dst.color.red, src.li.color.red);
	if (ret < 0) { puts("a line source is refused"); return 1; }
	if (memcmp(&dst, &src.li, sizeof(dst))) { puts("copy differs from its source"); return 1; }
	return 0;
}
