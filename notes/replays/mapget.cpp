// replay for ENDDEREF (C04): map<K,V>::get() answers with the slot behind the used data instead of the matching entry
#include <iostream>
#include "values.h"
using namespace mpt;
int main()
{
	map<laydest, reference<cycle> > p;
	reference<cycle> c(new reference<cycle>::type);
	p.set(laydest(1,2,3), c);
	p.set(laydest(1,4,3), c);
	const reference<cycle> *first = &p.begin()->value;
	const reference<cycle> *behind = &p.end()->value;
	reference<cycle> *got = p.get(laydest(1,2,3));
	std::cout << "entry 0 value at " << first << ", get(key of entry 0) = " << got << ", slot behind the data = " << behind << std::endl;
	if (got != first) {
		std::cout << "get() does not answer with the matching entry" << (got == behind ? " (it answers with the slot behind the last one)" : "") << std::endl;
		return 1;
	}
	return 0;
}
