#include <stdio.h>
#include <stdint.h>
#include <inttypes.h>
#include "convert.h"
int main(void)
{
	uint64_t t = 0; uint8_t y = 0; uint32_t u = 0;
	int bad = 0, r;
	r = mpt_convert_number("-1", 't', &t);
	printf("\"-1\" -> 't': ret %d value %" PRIu64 "\n", r, t);
	if (r > 0) ++bad;
	r = mpt_convert_number("-18446744073709551615", 'y', &y);
	printf("\"-18446744073709551615\" -> 'y': ret %d value %u\n", r, y);
	if (r > 0) ++bad;
	r = mpt_convert_number(" -4294967295", 'u', &u);
	printf("\" -4294967295\" -> 'u': ret %d value %u\n", r, u);
	if (r > 0) ++bad;
	r = mpt_convert_number("17", 'y', &y);
	if (r != 2 || y != 17) { printf("\"17\" -> 'y' broken: %d %u\n", r, y); ++bad; }
	r = mpt_convert_number("  255", 'y', &y);
	if (r != 5 || y != 255) { printf("\"  255\" -> 'y' broken: %d %u\n", r, y); ++bad; }
	return bad ? 1 : 0;
}
