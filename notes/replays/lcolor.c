#include <stdio.h>
#include <string.h>
#include "layout.h"
#include "object.h"
#include "types.h"
#include "meta.h"
/* line and text: colour set to red; resetting "color" (no source) must restore the default colour */
int main(void)
{
	MPT_STRUCT(line) li, ldef;
	MPT_STRUCT(text) tx, tdef;
	MPT_INTERFACE(metatype) *red;
	int bad = 0, ret;
	mpt_line_init(&li); mpt_line_init(&ldef);
	mpt_text_init(&tx, 0); mpt_text_init(&tdef, 0);
	{
		MPT_STRUCT(value) v;
		const char *txt = "red";
		MPT_value_set(&v, 's', &txt);
		red = mpt_meta_new(&v);
	}
	if (!red || mpt_line_set(&li, "color", (void *) red) < 0 || mpt_text_set(&tx, "color", (void *) red) < 0) { puts("cannot set colour"); return 2; }
	ret = mpt_line_set(&li, "color", 0);
	printf("line: reset of \"color\" returned %d, colour %02x%02x%02x (default %02x%02x%02x)\n", ret, li.color.red, li.color.green, li.color.blue, ldef.color.red, ldef.color.green, ldef.color.blue);
	if (ret >= 0 && memcmp(&li.color, &ldef.color, sizeof(li.color))) { puts("line colour was not reset"); ++bad; }
	ret = mpt_text_set(&tx, "color", 0);
	printf("text: reset of \"color\" returned %d, colour %02x%02x%02x (default %02x%02x%02x)\n", ret, tx.color.red, tx.color.green, tx.color.blue, tdef.color.red, tdef.color.green, tdef.color.blue);
	if (ret >= 0 && memcmp(&tx.color, &tdef.color, sizeof(tx.color))) { puts("text colour was not reset"); ++bad; }
	return bad ? 1 : 0;
}
