#include <cstdio>
#include <cstring>
#include <string>
#include "array.h"
using namespace mpt;
static int check(const char *what, const array &a, const std::string &want)
{
	std::string got(static_cast<const char *>(a.base()) ? static_cast<const char *>(a.base()) : "", a.length());
	if (got == want) return 0;
	std::printf("%s: got '%s' (%zu), want '%s'\n", what, got.c_str(), a.length(), want.c_str());
	return 1;
}
int main()
{
	int bad = 0;
	array a;
	a.append(5, "hello");
	a.insert(2, 3, "XYZ");
	bad += check("insert into private array", a, "heXYZllo");
	array e;
	e.insert(0, 4, "abcd");
	bad += check("insert into empty array", e, "abcd");
	array s;
	s.append(8, "01234567");
	array t(s);
	t.insert(1, 2, "..");
	bad += check("insert into shared array (copy)", t, "0..1234567");
	bad += check("insert into shared array (other handle)", s, "01234567");
	// compact the encoder array
	encode_array ea;
	ea.push(6, "abcdef");
	ea.push(0, 0);
	ea.shift(4);
	span<const uint8_t> d = ea.data();
	if (d.size() != 2 || std::memcmp(d.begin(), "ef", 2)) { std::printf("before compaction: not 'ef'\n"); ++bad; }
	ea.shift(0);
	d = ea.data();
	if (d.size() != 2 || std::memcmp(d.begin(), "ef", 2)) { std::printf("after compaction: %zu bytes %02x %02x, want 'ef'\n", d.size(), d.begin()[0], d.begin()[1]); ++bad; }
	return bad ? 1 : 0;
}
