#include <stdio.h>
#include <string.h>
#include <signal.h>
#include <unistd.h>
#include "meta.h"
#include "types.h"
#include "values.h"
static void segv(int s) { (void) s; static const char m[] = "SIGSEGV in the clone of an exhausted value list\n"; write(1, m, sizeof(m) - 1); _exit(1); }
int main(void)
{
	MPT_INTERFACE(metatype) *mt = mpt_iterator_values("1 2"), *cl;
	MPT_INTERFACE(iterator) *it = 0, *ci = 0;
	int r1, r2;
	signal(SIGSEGV, segv);
	MPT_metatype_convert(mt, MPT_ENUM(TypeIteratorPtr), &it);
	it->_vptr->advance(it);
	it->_vptr->advance(it);          /* reports the end: the list is exhausted */
	cl = mt->_vptr->clone(mt);
	MPT_metatype_convert(cl, MPT_ENUM(TypeIteratorPtr), &ci);
	r1 = it->_vptr->advance(it);
	r2 = ci->_vptr->advance(ci);
	printf("advance past the end: original %d, clone %d; value: original %p clone %p\n", r1, r2, (void *) it->_vptr->value(it), (void *) ci->_vptr->value(ci));
	return (r1 == r2 && !it->_vptr->value(it) == !ci->_vptr->value(ci)) ? 0 : 1;
}
