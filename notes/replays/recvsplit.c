/* replay for SHIFTKEEP / ALIGNIDLE / ROOMCODE (C03): well-formed COBS frames, every way to cut the stream into up to four pieces,
 * mpt_queue_recv() after every piece: each message has to be delivered */
#include <stdio.h>
#include <string.h>
#include <sys/uio.h>
#include "queue.h"
#include "convert.h"
#include "message.h"

static const unsigned char stream[] = { 0x02, 0xaa, 0x00,  0x03, 0x11, 0x22, 0x00,  0x01, 0x02, 0x33, 0x00,  0x04, 0x44, 0x55, 0x66, 0x00 };
static const unsigned char want[4][4] = { { 0xaa }, { 0x11, 0x22 }, { 0x00, 0x33 }, { 0x44, 0x55, 0x66 } };
static const size_t wlen[4] = { 1, 2, 2, 3 };

static int run(size_t c1, size_t c2, size_t c3, int verbose)
{
	MPT_STRUCT(decode_queue) dq = MPT_DECODE_QUEUE_INIT;
	size_t cuts[5] = { 0, c1, c2, c3, sizeof(stream) };
	int got = 0, bad = 0, i, k;
	dq._dec = mpt_decode_cobs;
	mpt_queue_prepare(&dq.data, 64);
	for (i = 0; i < 4; i++) {
		int ret;
		if (cuts[i + 1] == cuts[i]) continue;
		mpt_qpush(&dq.data, cuts[i + 1] - cuts[i], stream + cuts[i]);
		for (k = 0; k < 8 && (ret = mpt_queue_recv(&dq)) > 0; k++) {
			unsigned char buf[16]; struct iovec v; MPT_STRUCT(message) msg = MPT_MESSAGE_INIT;
			size_t len;
			mpt_message_get(&dq.data, dq._state.data.pos, dq._state.data.msg, &msg, &v);
			len = mpt_message_read(&msg, sizeof(buf), buf);
			if (got < 4 && (len != wlen[got] || memcmp(buf, want[got], len))) bad++;
			got++;
		}
		if (verbose) printf("    after byte %zu: last answer %d, %d message(s) so far\n", cuts[i + 1], ret, got);
	}
	mpt_queue_resize(&dq.data, 0);
	return (got == 4 && !bad) ? 0 : 1;
}
int main(void)
{
	size_t a, b, c, n = sizeof(stream);
	int fails = 0, total = 0;
	for (a = 0; a <= n; a++) for (b = a; b <= n; b++) for (c = b; c <= n; c++) {
		total++;
		if (run(a, b, c, 0)) {
			if (!fails++) { printf("cuts at %zu, %zu, %zu: not all four messages are delivered\n", a, b, c); run(a, b, c, 1); }
		}
	}
	printf("%d of %d segmentations fail\n", fails, total);
	return fails ? 1 : 0;
}
