#include <stdio.h>
#include <string.h>
#include "types.h"
#include "object.h"
#include "layout.h"
/* every property a text lists can be read by name: "color" and "pos" included */
int main(void)
{
	MPT_STRUCT(text) tx;
	static const char *names[] = { "value", "font", "color", "size", "pos", "angle" };
	int bad = 0;
	size_t i;
	mpt_text_init(&tx, 0);
	for (i = 0; i < sizeof(names) / sizeof(*names); i++) {
		MPT_STRUCT(property) pr;
		int ret;
		memset(&pr, 0, sizeof(pr));
		pr.name = names[i];
		ret = mpt_text_get(&tx, &pr);
		printf("mpt_text_get(\"%s\") = %d\n", names[i], ret);
		if (ret < 0) ++bad;
	}
	return bad ? 1 : 0;
}
