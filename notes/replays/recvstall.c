/* replay: a well-formed COBS frame fed in two pieces, the first piece ending right behind the frame's first code byte */
#include <stdio.h>
#include <string.h>
#include <sys/uio.h>
#include "queue.h"
#include "convert.h"
#include "message.h"

static int run(const unsigned char *in, size_t total, size_t cut)
{
	MPT_STRUCT(decode_queue) dq = MPT_DECODE_QUEUE_INIT;
	int ret = 0, got = 0, i;
	dq._dec = mpt_decode_cobs;
	mpt_queue_prepare(&dq.data, 64);
	if (cut) {
		mpt_qpush(&dq.data, cut, in);
		ret = mpt_queue_recv(&dq);
		printf("  after %zu byte(s): recv = %d\n", cut, ret);
	}
	mpt_qpush(&dq.data, total - cut, in + cut);
	for (i = 0; i < 4 && !got; i++) {
		ret = mpt_queue_recv(&dq);
		printf("  after the rest: recv = %d\n", ret);
		if (ret > 0) got = 1;
		if (ret < 0) break;
	}
	if (got) {
		unsigned char buf[16]; struct iovec v; MPT_STRUCT(message) msg = MPT_MESSAGE_INIT;
		size_t len;
		mpt_message_get(&dq.data, dq._state.data.pos, dq._state.data.msg, &msg, &v);
		len = mpt_message_read(&msg, sizeof(buf), buf);
		printf("  message of %zu bytes:", len);
		for (size_t k = 0; k < len; k++) printf(" %02x", buf[k]);
		printf("\n");
	}
	mpt_queue_resize(&dq.data, 0);
	return got;
}
int main(void)
{
	static const unsigned char frame[] = { 0x03, 0x11, 0x22, 0x00 };
	int whole, split;
	printf("frame 03 11 22 00 in one piece:\n");
	whole = run(frame, sizeof(frame), 0);
	printf("same frame as 03 | 11 22 00:\n");
	split = run(frame, sizeof(frame), 1);
	if (whole && !split) { puts("the split frame is never delivered"); return 1; }
	return 0;
}
