// replay for TYPEIDNAME (C20): generic assignment between two C++ layout texts
#include <iostream>
#include "layout.h"
using namespace mpt;
int main()
{
	layout::text a, b;
	a.size = 14;
	a.angle = 30;
	int ret = b.set_property("", &a);
	std::cout << "b.set_property(\"\", &a) returned " << ret << ", b.size " << int(b.size) << " (source " << int(a.size) << "), b.angle " << b.angle << " (source " << a.angle << ")" << std::endl;
	if (ret < 0) { std::cout << "a text is refused as source of a text" << std::endl; return 1; }
	if (b.size != a.size || b.angle != a.angle) { std::cout << "copy differs" << std::endl; return 1; }
	return 0;
}
