#include <stdio.h>
#include <string.h>
#include "config.h"
/* a text path whose separator is a byte from 0x80 up: removing the last element must remove exactly "f" */
int main(void)
{
	MPT_STRUCT(path) p = MPT_PATH_INIT;
	int ret, bad = 0;
	p.sep = (char) 0xfc;
	mpt_path_set(&p, "ab\xfc" "cde\xfc" "f", -1);
	printf("path of %d bytes, separator 0xfc\n", (int) p.len);
	ret = mpt_path_del(&p);
	printf("mpt_path_del() = %d, remaining length %d (expected 1 and 7)\n", ret, (int) p.len);
	if (ret != 1 || p.len != 7) ++bad;
	/* same path with '.' for comparison */
	p.sep = '.'; p.len = 0; p.off = 0;
	mpt_path_set(&p, "ab.cde.f", -1);
	ret = mpt_path_del(&p);
	printf("separator '.': mpt_path_del() = %d, remaining length %d\n", ret, (int) p.len);
	return bad ? 1 : 0;
}
