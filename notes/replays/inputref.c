#include <stdio.h>
#include <stdint.h>
#include "types.h"
#include "meta.h"
#include "notify.h"
/* a metatype whose counter cannot be raised (addref answers 0): copying a reference to it must be refused,
 * otherwise the copy is released although it never held a reference */
static int unrefs;
static int mtConv(MPT_INTERFACE(convertable) *c, MPT_TYPE(type) t, void *p) { (void) c; (void) t; (void) p; return MPT_ERROR(BadType); }
static void mtUnref(MPT_INTERFACE(metatype) *mt) { (void) mt; ++unrefs; }
static uintptr_t mtRef(MPT_INTERFACE(metatype) *mt) { (void) mt; return 0; }
static MPT_INTERFACE(metatype) *mtClone(const MPT_INTERFACE(metatype) *mt) { (void) mt; return 0; }
int main(void)
{
	static const MPT_INTERFACE_VPTR(metatype) vptr = { { mtConv }, mtUnref, mtRef, mtClone };
	MPT_INTERFACE(metatype) obj = { &vptr }, *src = &obj, *dst = 0;
	const MPT_STRUCT(type_traits) *t = mpt_input_reference_traits();
	int ret = t->init(&dst, &src);
	printf("copy of a reference whose count cannot be raised: init() = %d, slot = %s\n", ret, dst ? "object" : "empty");
	if (ret >= 0 && dst) {
		t->fini(&dst);
		printf("the copy was accepted without a reference and released it: %d unref call(s) for 0 references taken\n", unrefs);
		return 1;
	}
	return 0;
}
