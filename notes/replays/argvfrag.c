#include <stdio.h>
#include <string.h>
#include <sys/uio.h>
#include "message.h"
/* the arguments of "  ab cd" read from the fragments "  " | "ab cd" and " " | " " | "ab cd":
 * walk the message argument by argument (mpt_message_argv + mpt_message_read) and print what is delivered */
static int split(MPT_STRUCT(message) *msg, char out[][32], int max)
{
	int n = 0;
	ssize_t len;
	while (n < max && (len = mpt_message_argv(msg, ' ')) > 0) {
		if ((size_t) len >= sizeof(out[0])) len = sizeof(out[0]) - 1;
		len = mpt_message_read(msg, len, out[n]);
		out[n][len] = 0;
		mpt_message_read(msg, 1, 0);
		++n;
	}
	return n;
}
static int same(int na, char a[][32], int nb, char b[][32])
{
	int i;
	if (na != nb) return 0;
	for (i = 0; i < na; i++) if (strcmp(a[i], b[i])) return 0;
	return 1;
}
static void show(const char *what, int n, char a[][32])
{
	int i;
	printf("%s: %d argument(s):", what, n);
	for (i = 0; i < n; i++) printf(" [%s]", a[i]);
	printf("\n");
}
int main(void)
{
	MPT_STRUCT(message) msg = MPT_MESSAGE_INIT;
	struct iovec cont[2];
	char flat[8][32], frag[8][32];
	int nflat, nfrag, bad = 0;
	
	msg.base = "  ab cd"; msg.used = 7;
	nflat = split(&msg, flat, 8);
	show("contiguous \"  ab cd\"", nflat, flat);
	
	memset(&msg, 0, sizeof(msg));
	msg.base = "  "; msg.used = 2;
	cont[0].iov_base = "ab cd"; cont[0].iov_len = 5;
	msg.cont = cont; msg.clen = 1;
	nfrag = split(&msg, frag, 8);
	show("fragments \"  \" | \"ab cd\"", nfrag, frag);
	if (!same(nflat, flat, nfrag, frag)) ++bad;
	
	memset(&msg, 0, sizeof(msg));
	msg.base = " "; msg.used = 1;
	cont[0].iov_base = " "; cont[0].iov_len = 1;
	cont[1].iov_base = "ab cd"; cont[1].iov_len = 5;
	msg.cont = cont; msg.clen = 2;
	nfrag = split(&msg, frag, 8);
	show("fragments \" \" | \" \" | \"ab cd\"", nfrag, frag);
	if (!same(nflat, flat, nfrag, frag)) ++bad;
	
	printf("%d of 2 fragmentations differ from the contiguous reading\n", bad);
	return bad ? 1 : 0;
}
