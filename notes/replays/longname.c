/* replay for SENTINELUSE (C09): a section name of 256 bytes or more is parsed into a node without a name */
#include <stdio.h>
#include <string.h>
#include <stdlib.h>
#include "node.h"
#include "parse.h"
#include "config.h"

static int parse_len(int n)
{
	char *txt = malloc(n + 64);
	MPT_STRUCT(node) root = MPT_NODE_INIT, *c;
	FILE *fd;
	int ret, len = -1;
	memset(txt, 'n', n);
	strcpy(txt + n, " {\n a = 1\n}\n");
	fd = fmemopen(txt, strlen(txt), "r");
	MPT_STRUCT(parser_context) parse = MPT_PARSER_INIT;
	parse.src.getc = (int (*)(void *)) getc;
	parse.src.arg  = fd;
	ret = mpt_parse_node(&root, &parse, 0);
	if ((c = root.children)) {
		len = c->ident._len ? c->ident._len - 1 : 0;
	}
	printf("name of %d bytes: parse returned %d, first child has a name of %d bytes\n", n, ret, len);
	fclose(fd);
	mpt_node_clear(&root);
	free(txt);
	return ret >= 0 && len != n;
}
int main(void)
{
	int bad = 0;
	bad += parse_len(10);
	bad += parse_len(255);
	bad += parse_len(256);
	bad += parse_len(300);
	return bad ? 1 : 0;
}
