#include <stdio.h>
#include <string.h>
#include <unistd.h>
#include <signal.h>
#include <sys/mman.h>
#include <sys/uio.h>
#include "message.h"
/* a fragment that ends exactly at a page boundary followed by an inaccessible page */
static char *guarded(const char *txt, size_t len)
{
	long ps = sysconf(_SC_PAGESIZE);
	char *m = mmap(0, 2 * ps, PROT_READ | PROT_WRITE, MAP_PRIVATE | MAP_ANONYMOUS, -1, 0);
	mprotect(m + ps, ps, PROT_NONE);
	memcpy(m + ps - len, txt, len);
	return m + ps - len;
}
static void segv(int s) { (void) s; static const char msg[] = "SIGSEGV: read behind the fragment\n"; write(1, msg, sizeof(msg) - 1); _exit(1); }
int main(void)
{
	struct iovec v[2];
	ssize_t pos, flat;
	int bad = 0;
	signal(SIGSEGV, segv);
	/* 1: comment character is the last byte of a fragment */
	v[0].iov_base = guarded("#", 1);   v[0].iov_len = 1;
	v[1].iov_base = guarded("x\ny", 3); v[1].iov_len = 3;
	pos = mpt_memtok(v, 2, 0, "#", 0);
	{ struct iovec f; f.iov_base = guarded("#x\ny", 4); f.iov_len = 4; flat = mpt_memtok(&f, 1, 0, "#", 0); }
	printf("comment at fragment end: fragmented %zd, contiguous %zd\n", pos, flat);
	if (pos != flat) ++bad;
	/* 2: the line end is the first byte of the next fragment */
	v[0].iov_base = guarded("#c", 2);  v[0].iov_len = 2;
	v[1].iov_base = guarded("\nz", 2); v[1].iov_len = 2;
	pos = mpt_memtok(v, 2, 0, "#", 0);
	{ struct iovec f; f.iov_base = guarded("#c\nz", 4); f.iov_len = 4; flat = mpt_memtok(&f, 1, 0, "#", 0); }
	printf("line end first in next fragment: fragmented %zd, contiguous %zd\n", pos, flat);
	if (pos != flat) ++bad;
	return bad ? 1 : 0;
}
