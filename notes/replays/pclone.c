#include <stdio.h>
#include <string.h>
#include "meta.h"
#include "types.h"
/* text iterator "1 2 3": read the first element as a number, clone, walk the clone: it must replay what the original
 * still delivers (1, 2, 3) */
static int walk(MPT_INTERFACE(metatype) *mt, double *out, int max)
{
	MPT_INTERFACE(iterator) *it = 0;
	int n = 0;
	if (mt->_vptr->convertable.convert((void *) mt, MPT_ENUM(TypeIteratorPtr), &it) < 0 || !it) return -1;
	while (n < max) {
		const MPT_STRUCT(value) *val;
		double d;
		int ret;
		if (!(val = it->_vptr->value(it))) break;
		if (mpt_value_convert(val, 'd', &d) < 0) break;
		out[n++] = d;
		if ((ret = it->_vptr->advance(it)) <= 0) break;
	}
	return n;
}
int main(void)
{
	MPT_INTERFACE(metatype) *src, *cl;
	MPT_INTERFACE(iterator) *it = 0;
	const MPT_STRUCT(value) *val;
	double first = 0, a[8], b[8];
	int na, nb, i, bad = 0;
	
	if (!(src = mpt_iterator_string("1 2 3", 0))) return 2;
	src->_vptr->convertable.convert((void *) src, MPT_ENUM(TypeIteratorPtr), &it);
	val = it->_vptr->value(it);
	mpt_value_convert(val, 'd', &first);        /* parks the byte behind "1" */
	cl = src->_vptr->clone(src);
	if (!cl) { puts("clone refused"); return 1; }
	nb = walk(cl, b, 8);
	na = walk(src, a, 8);
	printf("original after the numeric read delivers %d element(s):", na); for (i = 0; i < na; i++) printf(" %g", a[i]); printf("\n");
	printf("clone taken at that point delivers %d element(s):", nb); for (i = 0; i < nb; i++) printf(" %g", b[i]); printf("\n");
	if (na != nb) ++bad;
	for (i = 0; i < na && i < nb; i++) if (a[i] != b[i]) ++bad;
	return bad ? 1 : 0;
}
