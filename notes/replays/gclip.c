#include <stdio.h>
#include <string.h>
#include "layout.h"
#include "object.h"
#include "types.h"
#include "meta.h"
/* graph: "clip" and "align" given as text are answered with success; the value must then be stored */
static MPT_INTERFACE(metatype) *text(const char *txt)
{
	MPT_STRUCT(value) v;
	MPT_value_set(&v, 's', &txt);
	return mpt_meta_new(&v);
}
int main(void)
{
	MPT_STRUCT(graph) gr;
	int bad = 0, ret;
	mpt_graph_init(&gr, 0);
	ret = mpt_graph_set(&gr, "clip", (void *) text("xz"));
	printf("clip = \"xz\": returned %d, clip is %d\n", ret, gr.clip);
	if (ret >= 0 && gr.clip == 0) { puts("accepted but not stored"); ++bad; }
	ret = mpt_graph_set(&gr, "align", (void *) text("eb"));
	printf("align = \"eb\": returned %d, align is %d\n", ret, gr.align);
	if (ret >= 0 && gr.align == 0) { puts("accepted but not stored"); ++bad; }
	return bad ? 1 : 0;
}
