#include <stdio.h>
#include <string.h>
#include <sys/uio.h>
#include "types.h"
#include "array.h"
#include "meta.h"
/* buffer iterator over "ab\0cd" (5 bytes, the last segment has no terminator): after one advance the current element is
 * the 2-byte vector "cd"; a clone taken there must report the same kind of element, not a text pointer */
int main(void)
{
	static const char txt[5] = { 'a', 'b', 0, 'c', 'd' };
	MPT_STRUCT(array) a = MPT_ARRAY_INIT;
	MPT_INTERFACE(metatype) *src, *cl;
	MPT_INTERFACE(iterator) *it = 0, *ci = 0;
	const MPT_STRUCT(value) *vo, *vc;
	MPT_STRUCT(buffer) *b = mpt_array_reserve(&a, 64, mpt_type_traits('c'));
	if (!b || mpt_buffer_set(b, mpt_type_traits('c'), 0, txt, sizeof(txt)) < 0) return 2;
	if (!(src = mpt_meta_buffer(&a))) return 2;
	src->_vptr->convertable.convert((void *) src, MPT_ENUM(TypeIteratorPtr), &it);
	it->_vptr->advance(it);
	if (!(cl = src->_vptr->clone(src))) return 2;
	cl->_vptr->convertable.convert((void *) cl, MPT_ENUM(TypeIteratorPtr), &ci);
	vo = it->_vptr->value(it);
	vc = ci->_vptr->value(ci);
	printf("original: element type %d; clone: element type %d\n", vo ? (int) vo->_type : -1, vc ? (int) vc->_type : -1);
	if (!vo || !vc || vo->_type != vc->_type) {
		puts("the clone reports another kind of element than the original at the same position");
		return 1;
	}
	return 0;
}
