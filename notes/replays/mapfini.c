#include <stdio.h>
#include <string.h>
#include <stdint.h>
#include "array.h"
#include "types.h"
static int inits, finis, bad;
static long live[1 << 16];
static int el_init(void *p, const void *from) { (void) from; *(long *) p = 0x1234; ++inits; return 0; }
static void el_fini(void *p) { ++finis; if (*(long *) p != 0x1234) ++bad; *(long *) p = 0; }
int main(void)
{
	static const MPT_STRUCT(type_traits) tr = { el_init, el_fini, sizeof(long) };
	MPT_STRUCT(array) a = MPT_ARRAY_INIT;
	long v[2] = { 0, 0 };
	if (!(a._buf = _mpt_buffer_map(100, 0))) { puts("no map"); return 2; }
	if (!mpt_array_set(&a, &tr, 2 * sizeof(long), v, 0)) { puts("set failed"); return 2; }
	printf("used=%zu size=%zu inits=%d\n", a._buf->_used, a._buf->_size, inits);
	a._buf->_vptr->unref(a._buf); a._buf = 0;
	printf("inits=%d finis=%d non-elements finalized=%d\n", inits, finis, bad);
	return (finis == inits && !bad) ? 0 : 1;
}
