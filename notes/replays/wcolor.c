#include <stdio.h>
#include <string.h>
#include "layout.h"
#include "object.h"
#include "types.h"
#include "meta.h"
/* world: colour set to red, cycles to 9; resetting "color" must restore the default colour and leave cycles alone */
int main(void)
{
	MPT_STRUCT(world) w, def;
	MPT_INTERFACE(metatype) *red;
	int bad = 0;
	mpt_world_init(&w, 0);
	mpt_world_init(&def, 0);
	w.cyc = 9;
	{
		MPT_STRUCT(value) v;
		const char *txt = "red";
		MPT_value_set(&v, 's', &txt);
		red = mpt_meta_new(&v);
	}
	if (!red || mpt_world_set(&w, "color", (void *) red) < 0) { puts("cannot set colour"); return 2; }
	printf("after color=red, cyc=9: colour %02x%02x%02x cyc %u\n", w.color.red, w.color.green, w.color.blue, w.cyc);
	if (mpt_world_set(&w, "color", 0) < 0) { puts("reset refused"); return 2; }
	printf("after reset of \"color\":  colour %02x%02x%02x cyc %u (default colour %02x%02x%02x)\n", w.color.red, w.color.green, w.color.blue, w.cyc,
	       def.color.red, def.color.green, def.color.blue);
	if (memcmp(&w.color, &def.color, sizeof(w.color))) { puts("colour was not reset"); ++bad; }
	if (w.cyc != 9) { puts("cycles changed although only the colour was named"); ++bad; }
	return bad ? 1 : 0;
}
