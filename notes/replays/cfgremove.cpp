// replay for DEADCALL (C10): a path removed from a private C++ configuration is still reported as present
#include <iostream>
#include "config.h"
using namespace mpt;
static int seen(void *ctx, convertable *mt, const collection *)
{
	*static_cast<int *>(ctx) = mt ? 2 : 1;
	return 0;
}
int main()
{
	config::root r;
	path p("rm.me", '.');
	value v;
	const char *txt = "value";
	v.set('s', &txt);
	int ret = r.assign(&p, &v);
	int st = 0;
	int q1 = r.query(&p, seen, &st);
	std::cout << "assign returned " << ret << "; query returned " << q1 << " (handler saw " << (st == 2 ? "a value" : st == 1 ? "no value" : "nothing") << ")" << std::endl;
	ret = r.remove(&p);
	st = 0;
	int q2 = r.query(&p, seen, &st);
	std::cout << "remove returned " << ret << "; query returned " << q2 << " (handler saw " << (st == 2 ? "a value" : st == 1 ? "no value" : "nothing") << ")" << std::endl;
	if (ret >= 0 && q2 >= 0) {
		std::cout << "the removed path is still reported as present" << std::endl;
		return 1;
	}
	return 0;
}
