#include <stdio.h>
#include <string.h>
#include <sys/uio.h>
#include "message.h"
#include "convert.h"
/* two messages encoded into one output area without flushing in between: "ab", then the empty message.
 * The finished part must grow to cover both frames. */
int main(void)
{
	MPT_STRUCT(encode_state) st = MPT_ENCODE_INIT;
	uint8_t out[32];
	struct iovec to, from;
	size_t first;
	int bad = 0;
	memset(out, 0xee, sizeof(out));
	to.iov_base = out; to.iov_len = sizeof(out);
	from.iov_base = (void *) "ab"; from.iov_len = 2;
	if (mpt_encode_cobs(&st, &to, &from) != 2) { puts("push failed"); return 2; }
	if (mpt_encode_cobs(&st, &to, 0) != 0) { puts("terminate failed"); return 2; }
	first = st.done;
	printf("after \"ab\": done=%zu scratch=%zu\n", (size_t) st.done, (size_t) st.scratch);
	if (mpt_encode_cobs(&st, &to, 0) != 0) { puts("terminate (empty) failed"); return 2; }
	printf("after empty message: done=%zu scratch=%zu (expected done=%zu)\n", (size_t) st.done, (size_t) st.scratch, first + 2);
	if (st.done != first + 2) {
		printf("finished data shrank: the frame of \"ab\" (%zu bytes) is no longer covered by done\n", first);
		++bad;
	}
	return bad ? 1 : 0;
}
